/-
Symbolic (Dolev–Yao) unforgeability theorems for the token logic of Token/Macaroon.lean instantiated
at `B = Symbolic.Term`.  Cited by Props/C01, C04, C06, C07, C08.

ASSUMPTION of every theorem in this file (stated here, NOT a Lean axiom): perfect cryptography —
HMAC-SHA256, SHA-256 (also truncated to 16 bytes) and ChaCha20-Poly1305 are free, injective,
pairwise disjoint constructors (`mac`, `fin`, `sha`, `pre16`, `box` of `Symbolic.Term`) whose only
inverse is `unbox` with the key; nonce and caveat encodings are injective (`encNonceT_injective`,
`encT_injective`, proved).  The attacker is `Symbolic.Der` (Lemmas/Symbolic.lean).

Vocabulary (Lemmas/Symbolic.lean):  `Sec a` — atom `a` is a secret (issuer key, uncompromised
third-party key, protected discharge key `rn`);  `Held a n cs` — the unfinalised chain with root
key `atom a`, nonce encoding `n` and caveat encodings `cs` was given to the attacker;
`HeldFin a n cs` — it was given out in finalised form only;  `S` — the secret terms;  `Exp t u` —
`u` is reachable in `t` by destructors (a box is transparent only if its key is not in `S`).
Property theorems only; proofs delegate to Lemmas/Symbolic.lean.
-/
import Macaroon.Lemmas.Symbolic
import Macaroon.Lemmas.BoxOrigin
import Macaroon.Props.C07
import Macaroon.Props.C06

namespace Macaroon.Props.Symbolic
open Macaroon Macaroon.Symbolic Macaroon.Symbolic.Term Crypto

/-! ### 1. acceptance fixes the tail (C01 `verify_tail` at `B = Term`) -/

/-- A token accepted by `verify` under key `k` has the tail that the honest chain over its nonce
(key-id, random part, version, proof flag) and ALL its caveats, in order, produces — finalised
for proofs.  No caveat kind skips the MAC update. -/
theorem sym_verify_tail (k : Term) (m : Mac Term) (dms : List (Mac Term)) (pids : List Term) (ta : Bool)
    (tr : Bytes → List Term) (cs : List (Cav Term)) (h : verifyWith k m dms pids ta tr = .ok cs) :
    m.tail = (if m.nonce.proof then fin else id) (chain (mac k (encNonceT m.nonce)) (m.cavs.map encT)) :=
  (verifyWith_term h).1

/-- the same for a token verified in the discharge role -/
theorem sym_verifyFlat_tail (k : Term) (m : Mac Term) (pids : List Term) (ta : Bool)
    (cs : List (Cav Term)) (h : verifyFlat k m pids ta = .ok cs) :
    m.tail = (if m.nonce.proof then fin else id) (chain (mac k (encNonceT m.nonce)) (m.cavs.map encT)) :=
  (verifyFlat_term h).1

/-! ### 2. no forgery (C01) -/

section
variable (Sec : Nat → Prop) (Held HeldFin : Nat → Term → List Term → Prop) (H : Term → Prop)

/-- C01 `no_forgery`.  The issuer key `atom a` is secret and no held term exposes a secret
(`hH`; it holds for the publications of every honest run, `honest_history_safe`).  Then every
token whose tail the attacker can derive and that verifies under the issuer key carries the nonce
of a token that was given out and a caveat sequence that EXTENDS that token's sequence: nothing
removed, reordered or altered (by `encT_injective`/`encNonceT_injective`, see
`held_prefix_tokens`); and if only the finalised form of a proof was given out, exactly its
sequence. -/
theorem no_forgery_token
    (hH : ∀ t, H t → ∀ u, Exp Sec Held HeldFin t u → ¬ S Sec Held HeldFin u)
    (a : Nat) (ha : Sec a) (m : Mac Term) (dms : List (Mac Term)) (pids : List Term) (ta : Bool)
    (tr : Bytes → List Term) (cs : List (Cav Term))
    (hd : Der H m.tail) (hv : verifyWith (atom a) m dms pids ta tr = .ok cs) :
    (∃ cs₀, Held a (encNonceT m.nonce) cs₀ ∧ cs₀ <+: m.cavs.map encT) ∨
    (m.nonce.proof = true ∧ HeldFin a (encNonceT m.nonce) (m.cavs.map encT)) := by
  have ht := sym_verify_tail _ _ _ _ _ _ _ hv
  cases hp : m.nonce.proof
  · rw [hp] at ht
    simp only [Bool.false_eq_true, if_false, id] at ht
    rw [ht] at hd
    exact Or.inl (no_forgery Sec Held HeldFin H hH a ha _ _ hd)
  · rw [hp] at ht
    simp only [if_true] at ht
    rw [ht] at hd
    rcases no_forgery_fin Sec Held HeldFin H hH a ha _ _ hd with h | h
    · exact Or.inl h
    · exact Or.inr ⟨rfl, h⟩

/-- for a permission token (not a proof) the accepted token extends a held one -/
theorem no_forgery_token_nonproof
    (hH : ∀ t, H t → ∀ u, Exp Sec Held HeldFin t u → ¬ S Sec Held HeldFin u)
    (a : Nat) (ha : Sec a) (m : Mac Term) (dms : List (Mac Term)) (pids : List Term) (ta : Bool)
    (tr : Bytes → List Term) (cs : List (Cav Term)) (hp : m.nonce.proof = false)
    (hd : Der H m.tail) (hv : verifyWith (atom a) m dms pids ta tr = .ok cs) :
    ∃ cs₀, Held a (encNonceT m.nonce) cs₀ ∧ cs₀ <+: m.cavs.map encT := by
  rcases no_forgery_token Sec Held HeldFin H hH a ha m dms pids ta tr cs hd hv with h | ⟨h, _⟩
  · exact h
  · rw [hp] at h; cases h

/-- reading the conclusion back at the level of tokens: if the held chain is that of a token `h`,
the accepted token has the same nonce (all four components) and `h`'s caveats as a prefix -/
theorem held_prefix_tokens {h m : Mac Term} (hn : encNonceT h.nonce = encNonceT m.nonce)
    (hp : h.cavs.map encT <+: m.cavs.map encT) : h.nonce = m.nonce ∧ h.cavs <+: m.cavs :=
  ⟨encNonceT_injective hn, map_encT_prefix hp⟩

/-- the secret keys stay secret -/
theorem key_secrecy
    (hH : ∀ t, H t → ∀ u, Exp Sec Held HeldFin t u → ¬ S Sec Held HeldFin u)
    (a : Nat) (ha : Sec a) : ¬ Der H (atom a) :=
  secrecy Sec Held HeldFin H hH a ha

/-! ### 4. discharges (C04) and bindings (C06) -/

/-- C04 `tampered_discharge_rejected`: `no_forgery` re-instantiated at the root `rn`.  When the
discharge key `rn` of a third-party caveat is secret (the ticket key `ka` and the tail preceding
the caveat are not derivable — that is how `Run` lets `Sec rn` be claimed), every candidate the
attacker can put together and that verifies in the discharge role extends a discharge that the
third party issued for that `rn`, with that discharge's nonce — in particular its key-id, the
ticket. -/
theorem discharge_no_forgery
    (hH : ∀ t, H t → ∀ u, Exp Sec Held HeldFin t u → ¬ S Sec Held HeldFin u)
    (rn : Nat) (hrn : Sec rn) (dm : Mac Term) (ids : List Term) (ta : Bool) (cs : List (Cav Term))
    (hd : Der H dm.tail) (hv : verifyFlat (atom rn) dm ids ta = .ok cs) :
    (∃ cs₀, Held rn (encNonceT dm.nonce) cs₀ ∧ cs₀ <+: dm.cavs.map encT) ∨
    (dm.nonce.proof = true ∧ HeldFin rn (encNonceT dm.nonce) (dm.cavs.map encT)) := by
  have ht := sym_verifyFlat_tail _ _ _ _ _ hv
  cases hp : dm.nonce.proof
  · rw [hp] at ht
    simp only [Bool.false_eq_true, if_false, id] at ht
    rw [ht] at hd
    exact Or.inl (no_forgery Sec Held HeldFin H hH rn hrn _ _ hd)
  · rw [hp] at ht
    simp only [if_true] at ht
    rw [ht] at hd
    rcases no_forgery_fin Sec Held HeldFin H hH rn hrn _ _ hd with h | h
    · exact Or.inl h
    · exact Or.inr ⟨rfl, h⟩

end

/-- C04 `wrong_secret_rejected`: a discharge verifies under at most one key atom: a chain rooted
at `rn'` never satisfies a caveat whose key is `rn ≠ rn'`. -/
theorem wrong_secret_rejected (rn rn' : Nat) (dm : Mac Term) (ids ids' : List Term) (ta ta' : Bool)
    (cs cs' : List (Cav Term)) (hv : verifyFlat (atom rn) dm ids ta = .ok cs)
    (hv' : verifyFlat (atom rn') dm ids' ta' = .ok cs') : rn = rn' := by
  have h1 := sym_verifyFlat_tail _ _ _ _ _ hv
  have h2 := sym_verifyFlat_tail _ _ _ _ _ hv'
  rw [h1] at h2
  cases hp : dm.nonce.proof
  · rw [hp] at h2
    simp only [Bool.false_eq_true, if_false, id] at h2
    exact (chain_unique h2).1
  · rw [hp] at h2
    simp only [if_true, fin.injEq] at h2
    exact (chain_unique h2).1

/-- C04: the verifier accepts as discharge only a candidate that verifies (in the discharge role)
under the key it unsealed from the caveat -/
theorem accepted_discharge_verifies (ids : List Term) (ta : Bool) (tr : Bytes → List Term) (key : Term)
    (ds : List (Mac Term)) (cs : List (Cav Term)) (h : firstDischarge ids ta tr key ds = some cs) :
    ∃ dm ∈ ds, ∃ t : Bool, verifyFlat key dm ids (ta && t) = .ok cs :=
  firstDischarge_some ds cs h

/-- C06 `binding_ids` at `B = Term`: the ids a verification offers to discharges are the digests
of the tails after every prefix of the caveat list (unfinalised), the bare nonce MAC included -/
theorem sym_binding_ids (k : Term) (m : Mac Term) (dms : List (Mac Term)) (pids : List Term) (ta : Bool)
    (tr : Bytes → List Term) (cs : List (Cav Term)) (h : verifyWith k m dms pids ta tr = .ok cs) :
    ∃ s, walk m.nonce.proof ta (byTicket dms) pids m.cavs
          ⟨mac k (encNonceT m.nonce), [sha (mac k (encNonceT m.nonce))], [], []⟩ = .ok s ∧
      s.ids = (mac k (encNonceT m.nonce) :: tailsT (mac k (encNonceT m.nonce)) (m.cavs.map encT)).map sha ∧
      dischargeAll s.ids ta tr s.pend s.ret = some cs :=
  (verifyWith_term h).2.2

/-- C06: a binding caveat in a discharge is checked against the parent ids -/
theorem binding_checked (k : Term) (dm : Mac Term) (ids : List Term) (ta : Bool) (cs : List (Cav Term))
    (id : Term) (h : verifyFlat k dm ids ta = .ok cs) (hb : Cav.bind id ∈ dm.cavs) :
    ids.any (fun bid => hasPrefix bid id) = true := by
  obtain ⟨_, s, hw, _, _⟩ := verifyFlat_ok h
  exact walk_bind _ _ _ hw hb

/-- C06 `bound_fails_elsewhere`.  `x` is an (unfinalised) token state under key `atom a'`; a
discharge was bound to it (`bindId x.tail = pre16 (sha x.tail)`).  If that binding caveat is
satisfied against the ids of `y` verified under `atom a`, then `x` is one of `y`'s prefix states:
same key, same nonce, and `x`'s caveats are a prefix of `y`'s.  So the bound discharge works with
`x` and its descendants only: an ancestor of `x` (fewer caveats than `x`), a sibling (diverging
caveat) and an unrelated token (other nonce or key) all fail. -/
theorem bound_fails_elsewhere (a a' : Nat) (x y : Mac Term)
    (hx : x.tail = chain (mac (atom a') (encNonceT x.nonce)) (x.cavs.map encT))
    (h : ((mac (atom a) (encNonceT y.nonce) ::
            tailsT (mac (atom a) (encNonceT y.nonce)) (y.cavs.map encT)).map sha).any
          (fun bid => hasPrefix bid (bindId x.tail)) = true) :
    a' = a ∧ x.nonce = y.nonce ∧ x.cavs <+: y.cavs := by
  obtain ⟨bid, hmem, hpre⟩ := List.any_eq_true.mp h
  obtain ⟨t, ht, rfl⟩ := List.mem_map.mp hmem
  have hxt : x.tail = t := by simpa [hasPrefix, bindId] using hpre
  obtain ⟨cs0, hp, rfl⟩ := mem_tailsT ht
  rw [hx] at hxt
  obtain ⟨h1, h2, h3⟩ := chain_unique hxt
  refine ⟨h1, encNonceT_injective h2, map_encT_prefix ?_⟩
  rw [h3]; exact hp

/-- C06 corollary: a strict ancestor of the token the discharge was bound to does not satisfy
the binding -/
theorem bound_fails_ancestor (a a' : Nat) (x y : Mac Term)
    (hx : x.tail = chain (mac (atom a') (encNonceT x.nonce)) (x.cavs.map encT))
    (hlen : y.cavs.length < x.cavs.length) :
    ((mac (atom a) (encNonceT y.nonce) ::
        tailsT (mac (atom a) (encNonceT y.nonce)) (y.cavs.map encT)).map sha).any
      (fun bid => hasPrefix bid (bindId x.tail)) = false := by
  rw [← Bool.not_eq_true]
  intro h
  have := (bound_fails_elsewhere a a' x y hx h).2.2.length_le
  omega

/-! ### 5. finalised proofs cannot be extended (C08) -/

section
variable (Sec : Nat → Prop) (Held HeldFin : Nat → Term → List Term → Prop) (H : Term → Prop)

/-- C08 `extension_rejected`.  Let `t = chain (mac (atom a) n) cs₀` be the unfinalised tail of a
proof under a secret root (`rn`), of which the attacker got `fin t` (and whatever else was
published).  A finalised extension `fin (chain t (c :: cs))` is derivable only if some
UNfinalised state of that proof that is a prefix of the extension was given out, or the key holder
itself issued exactly that finalised extension.  Holding `fin t` is of no help: there is no way
from `fin t` back to `t`. -/
theorem extension_rejected
    (hH : ∀ t, H t → ∀ u, Exp Sec Held HeldFin t u → ¬ S Sec Held HeldFin u)
    (a : Nat) (ha : Sec a) (n : Term) (cs₀ : List Term) (c : Term) (cs : List Term)
    (hd : Der H (fin (chain (chain (mac (atom a) n) cs₀) (c :: cs)))) :
    (∃ cs₁, Held a n cs₁ ∧ cs₁ <+: cs₀ ++ c :: cs) ∨ HeldFin a n (cs₀ ++ c :: cs) := by
  rw [← chain_append] at hd
  exact no_forgery_fin Sec Held HeldFin H hH a ha _ _ hd

/-- in particular: when only finalised forms of the proof with nonce `n` were given out, and not
this one, the extension is not derivable -/
theorem extension_rejected'
    (hH : ∀ t, H t → ∀ u, Exp Sec Held HeldFin t u → ¬ S Sec Held HeldFin u)
    (a : Nat) (ha : Sec a) (n : Term) (cs₀ : List Term) (c : Term) (cs : List Term)
    (hnone : ∀ cs₁, ¬ Held a n cs₁) (hfin : ¬ HeldFin a n (cs₀ ++ c :: cs)) :
    ¬ Der H (fin (chain (chain (mac (atom a) n) cs₀) (c :: cs))) := by
  intro hd
  rcases extension_rejected Sec Held HeldFin H hH a ha n cs₀ c cs hd with ⟨cs₁, h, _⟩ | h
  · exact hnone _ h
  · exact hfin h

/-- the unfinalised tail itself stays underivable, so the honest way to extend is closed too -/
theorem unfinalised_tail_secret
    (hH : ∀ t, H t → ∀ u, Exp Sec Held HeldFin t u → ¬ S Sec Held HeldFin u)
    (a : Nat) (ha : Sec a) (n : Term) (cs₀ : List Term)
    (hnone : ¬ ∃ cs₁, Held a n cs₁ ∧ cs₁ <+: cs₀) :
    ¬ Der H (chain (mac (atom a) n) cs₀) :=
  fun hd => hnone (no_forgery Sec Held HeldFin H hH a ha _ _ hd)

end

/-! ### 4 (continued). the whole verifier: a third-party caveat is satisfied only by its own discharge -/

section
variable (Sec : Nat → Prop) (Held HeldFin : Nat → Term → List Term → Prop) (H : Term → Prop)

/-- C04 `tampered_discharge_rejected`, through the whole of `verify`.  The token `m` carries, after
the caveats `l1`, an honestly added third-party caveat: its VerifierKey seals the secret `rn`
under the tail preceding it.  If `m` is accepted with the discharges `dms`, all of whose tails
the attacker can derive, then one of them has the caveat's ticket as key-id and extends — same
nonce, caveats appended only — a discharge the third party issued under that `rn`
(or is exactly a discharge issued in finalised form). -/
theorem tampered_discharge_rejected
    (hH : ∀ t, H t → ∀ u, Exp Sec Held HeldFin t u → ¬ S Sec Held HeldFin u)
    (k : Term) (m : Mac Term) (dms : List (Mac Term)) (pids : List Term) (ta : Bool)
    (tr : Bytes → List Term) (ret : List (Cav Term))
    (l1 l2 : List (Cav Term)) (loc : Bytes) (nn ticket : Term) (rn : Nat) (hrn : Sec rn)
    (hm : m.cavs = l1 ++ .tp loc (sealKey (chain (mac k (encNonceT m.nonce)) (l1.map encT)) nn (atom rn)) ticket :: l2)
    (hd : ∀ d ∈ dms, Der H d.tail)
    (hv : verifyWith k m dms pids ta tr = .ok ret) :
    ∃ dm ∈ dms, dm.nonce.kid = ticket ∧
      ((∃ cs₀, Held rn (encNonceT dm.nonce) cs₀ ∧ cs₀ <+: dm.cavs.map encT) ∨
       (dm.nonce.proof = true ∧ HeldFin rn (encNonceT dm.nonce) (dm.cavs.map encT))) := by
  obtain ⟨_, s, hw, hda, _⟩ := verifyWith_ok hv
  rw [hm] at hw
  obtain ⟨ds, dk, t, h1, h2, h3, h4⟩ := walk_tp_pend _ _ _ _ hw
  simp only [macChain_term, Option.some.injEq] at h1
  have hdk : dk = atom rn := by
    have : macNonce k m.nonce = mac k (encNonceT m.nonce) := rfl
    rw [← h1, this] at h3
    simpa [unsealKey, sealKey, unsealKeyT] using h3.symm
  subst hdk
  obtain ⟨cs, hfd⟩ := dischargeAll_some _ _ _ hda _ h4
  obtain ⟨dm, hdm, tt, hvf⟩ := firstDischarge_some _ _ hfd
  obtain ⟨hin, hkid⟩ := byTicket_some h2 dm hdm
  refine ⟨dm, hin, by simpa [kidEq] using hkid, ?_⟩
  exact discharge_no_forgery Sec Held HeldFin H hH rn hrn dm _ _ _ (hd dm hin) hvf

end

/-! ### 7. attestations (C07) against the attacker -/

section
variable (Sec : Nat → Prop) (Held HeldFin : Nat → Term → List Term → Prop) (H : Term → Prop)

/-- C07 `attestation_no_forgery`: provenance (`Props.C07.attestation_source`) composed with
`discharge_no_forgery`.  A permission token `m` is accepted under ANY key with discharges whose
tails the attacker can derive, and an attestation `a` can be obtained from the result.  The trusted
third parties are honest (`hT`): whatever ticket one of the verifier's trusted keys opens among the
presented discharges' key-ids holds a SECRET discharge key, and of the proof with that nonce no
unfinalised state was ever given out.  Then `a` sits at top level of a presented proof token whose
whole caveat sequence — nothing appended, nothing wrapped — is one that the holder of that secret
discharge key finalised and issued under that very nonce.  Copying a trusted ticket into an own
token, naming the trusted location, extending a published proof by hand: none of it yields an
attestation the trusted party did not place. -/
theorem attestation_no_forgery
    (hH : ∀ t, H t → ∀ u, Exp Sec Held HeldFin t u → ¬ S Sec Held HeldFin u)
    (k : Term) (m : Mac Term) (dms : List (Mac Term)) (tr : Bytes → List Term) (cs : List (Cav Term))
    (hv : verify k m dms tr = .ok cs) (hmp : m.nonce.proof = false)
    (hd : ∀ d ∈ dms, Der H d.tail)
    (hT : ∀ d ∈ dms, ∀ ka ∈ tr d.loc, ∀ dk cs', openTicket ka d.nonce.kid = .ok dk cs' →
          ∃ rn, dk = atom rn ∧ Sec rn ∧ ∀ cs₁, ¬ Held rn (encNonceT d.nonce) cs₁)
    (a : Cav Term) (ha : a ∈ C07.obtainable cs) :
    a.isAttestation = true ∧
    ∃ d ∈ dms, d.nonce.proof = true ∧ a ∈ d.cavs ∧
      ∃ rn, Sec rn ∧ HeldFin rn (encNonceT d.nonce) (d.cavs.map encT) := by
  obtain ⟨hatt, hcase⟩ := C07.attestation_source k m dms tr cs hv a ha
  refine ⟨hatt, ?_⟩
  rcases hcase with ⟨hp, _⟩ | ⟨p, hp, d, hdp, hpr, had, htr, r, hvf, _⟩
  · rw [hmp] at hp; cases hp
  · obtain ⟨_, _, ticket, _, hb⟩ := Lemmas.mem_pendOf dms _ _ p hp
    have hin : d ∈ dms := ((Lemmas.mem_byTicket dms ticket p.ds hb).2 d hdp).1
    obtain ⟨ka, hka, dk, cs', hopen, hct⟩ := (C07.trust_needs_matching_ticket (tr d.loc) d.nonce.kid p.key).1 htr
    obtain ⟨rn, hdk, hsec, hnone⟩ := hT d hin ka hka dk cs' hopen
    have hkey : p.key = atom rn := by
      have := (LawfulCrypto.ctEq_iff p.key dk).mp hct
      rw [this, hdk]
    rw [hkey] at hvf
    refine ⟨d, hin, hpr, had, rn, hsec, ?_⟩
    rcases discharge_no_forgery Sec Held HeldFin H hH rn hsec d _ _ _ (hd d hin) hvf with ⟨cs₀, hheld, _⟩ | ⟨_, hfin⟩
    · exact absurd hheld (hnone cs₀)
    · exact hfin

end

/-! ### 3. honest histories satisfy the exposure hypothesis; 6. nonces are fresh -/

section
variable (Sec : Nat → Prop) (Held HeldFin : Nat → Term → List Term → Prop)

/-- `honest_history_safe`.  For every honest run (`Run`: mint under any key with a fresh random
part; add of plain caveats, of binding caveats and of third-party caveats under any third-party
key with fresh `rn` and AEAD nonces; `dischargeTicket`; `encode`; publication of any token state;
attacker atoms) that respects the declared sets — published chains under secret roots are in
`Held`/`HeldFin`; a discharge key is declared secret only if the third-party key is secret and no
state preceding the third-party caveat is ever held — every term on the network satisfies the
exposure hypothesis of `no_forgery_token`, `discharge_no_forgery`, `extension_rejected`. -/
theorem honest_history_safe (s : St) (r : Run Sec Held HeldFin s) :
    ∀ t, t ∈ s.pub → ∀ u, Exp Sec Held HeldFin t u → ¬ S Sec Held HeldFin u :=
  (run_inv Sec Held HeldFin r).pub

/-- C01 `mint_nonces_distinct`: the nonces of the mint events (`New`, `DischargeTicket`) of one
run are pairwise different — their random parts are distinct fresh atoms. -/
theorem mint_nonces_distinct (s : St) (r : Run Sec Held HeldFin s) :
    s.minted.Pairwise (· ≠ ·) :=
  (run_inv Sec Held HeldFin r).minted_nodup

/-- C01 end to end: in an honest run no token forged from the network traffic verifies under a
secret issuer key unless it extends a token that was declared given out. -/
theorem run_no_forgery (s : St) (r : Run Sec Held HeldFin s)
    (a : Nat) (ha : Sec a) (m : Mac Term) (dms : List (Mac Term)) (pids : List Term) (ta : Bool)
    (tr : Bytes → List Term) (cs : List (Cav Term))
    (hd : Der (· ∈ s.pub) m.tail) (hv : verifyWith (atom a) m dms pids ta tr = .ok cs) :
    (∃ cs₀, Held a (encNonceT m.nonce) cs₀ ∧ cs₀ <+: m.cavs.map encT) ∨
    (m.nonce.proof = true ∧ HeldFin a (encNonceT m.nonce) (m.cavs.map encT)) :=
  no_forgery_token Sec Held HeldFin _ (honest_history_safe Sec Held HeldFin s r) a ha m dms pids ta tr cs hd hv

end

/-- C01 end to end with the declared sets read off the run itself (`Held` = the unfinalised
published states, `HeldFin` = the finalised ones): an accepted token has the nonce of a PUBLISHED
token `h` under that key and `h`'s caveats as a prefix of its own — nothing removed, reordered or
altered; if `h` was published finalised, exactly `h`'s caveats. -/
theorem run_no_forgery_closed (Sec : Nat → Prop) (s : St)
    (r : Run Sec (HeldOf s.published) (HeldFinOf s.published) s)
    (a : Nat) (ha : Sec a) (m : Mac Term) (dms : List (Mac Term)) (pids : List Term) (ta : Bool)
    (tr : Bytes → List Term) (cs : List (Cav Term))
    (hd : Der (· ∈ s.pub) m.tail) (hv : verifyWith (atom a) m dms pids ta tr = .ok cs) :
    ∃ h, (a, h) ∈ s.published ∧ h.nonce = m.nonce ∧ h.cavs <+: m.cavs ∧
      (finalised h = true → h.cavs = m.cavs) := by
  rcases run_no_forgery Sec _ _ s r a ha m dms pids ta tr cs hd hv with
    ⟨cs₀, ⟨h, hmem, hf, hn, rfl⟩, hp⟩ | ⟨_, ⟨h, hmem, hf, hn, hc⟩⟩
  · obtain ⟨h1, h2⟩ := held_prefix_tokens hn.symm hp
    exact ⟨h, hmem, h1, h2, fun hf' => by rw [hf] at hf'; cases hf'⟩
  · exact ⟨h, hmem, (encNonceT_injective hn).symm, by rw [map_encT_injective hc]; exact List.prefix_refl _,
      fun _ => (map_encT_injective hc).symm⟩

/-! ### 8. direct forms (C01, C04, C06, C08) -/

/-- C01 `tail_determines_token`: under one issuer key a tail is accepted with at most one nonce and one
caveat sequence.  A held tail cannot be re-used with another key-id, random part, version or proof
flag, nor with a caveat dropped, moved, altered or appended: whatever is accepted with the same tail
is the same token (up to its unauthenticated location). -/
theorem tail_determines_token (a : Nat) (m m' : Mac Term) (dms dms' : List (Mac Term)) (pids pids' : List Term)
    (ta ta' : Bool) (tr tr' : Bytes → List Term) (cs cs' : List (Cav Term))
    (hv : verifyWith (atom a) m dms pids ta tr = .ok cs)
    (hv' : verifyWith (atom a) m' dms' pids' ta' tr' = .ok cs')
    (ht : m.tail = m'.tail) : m.nonce = m'.nonce ∧ m.cavs = m'.cavs := by
  have h1 := sym_verify_tail _ _ _ _ _ _ _ hv
  have h2 := sym_verify_tail _ _ _ _ _ _ _ hv'
  rw [ht, h2] at h1
  cases hp : m.nonce.proof <;> cases hp' : m'.nonce.proof <;> rw [hp, hp'] at h1 <;>
    simp only [Bool.false_eq_true, if_false, if_true, id] at h1
  · obtain ⟨_, hn, hc⟩ := chain_unique h1
    exact ⟨(encNonceT_injective hn).symm, (map_encT_injective hc).symm⟩
  · have := chain_isMac (mac (atom a) (encNonceT m.nonce)) (m.cavs.map encT) rfl
    rw [← h1] at this; cases this
  · have := chain_isMac (mac (atom a) (encNonceT m'.nonce)) (m'.cavs.map encT) rfl
    rw [h1] at this; cases this
  · injection h1 with h1
    obtain ⟨_, hn, hc⟩ := chain_unique h1
    exact ⟨(encNonceT_injective hn).symm, (map_encT_injective hc).symm⟩

/-- C04 `ticket_wrong_key`: a ticket sealed for one third-party key does not open under another: no
conditions are recovered and no discharge is prepared -/
theorem ticket_wrong_key (ka ka' n dk : Term) (cs : List (Cav Term)) (loc : Bytes) (rnd : Term) (p : Bool)
    (h : ka' ≠ ka) :
    openTicket ka' (sealTicket ka n dk cs) = .cannotOpen ∧
    dischargeTicket ka' loc (sealTicket ka n dk cs) rnd p = .error .cannotOpen := by
  have h1 : openTicket ka' (sealTicket ka n dk cs) = .cannotOpen := by
    simp [Crypto.openTicket, Crypto.sealTicket, openTicketT, Ne.symm h]
  exact ⟨h1, by unfold dischargeTicket; rw [h1]⟩

/-- C04 `ticket_altered`: anything that is not a ciphertext under the third-party key (a ticket whose
key, i.e. authentication, does not fit — every altered ticket, with perfect cryptography) is refused -/
theorem ticket_altered (ka t : Term) (loc : Bytes) (rnd : Term) (p : Bool)
    (h : ∀ n pl, t ≠ box ka n pl) : dischargeTicket ka loc t rnd p = .error .cannotOpen := by
  have h1 : openTicket ka t = .cannotOpen := by
    cases t <;> simp only [Crypto.openTicket, openTicketT]
    case box k n pl =>
      by_cases hk : k = ka
      · subst hk; exact absurd rfl (h n pl)
      · simp [hk]
  unfold dischargeTicket; rw [h1]

/-- C04 `seal_twice_differs` (the deterministic half): two sealings of the same content under the same
key are equal only if they drew the same AEAD nonce; that two draws differ is freshness of
`crypto/rand` (in `Run`: fresh atoms), sampled on the Go side -/
theorem seal_twice_differs_sym (ka n n' dk : Term) (cs : List (Cav Term)) (t : Term) (rn : Term) :
    (sealTicket ka n dk cs = sealTicket ka n' dk cs → n = n') ∧
    (sealKey t n rn = sealKey t n' rn → n = n') := by
  constructor <;> intro h <;> simpa [Crypto.sealTicket, Crypto.sealKey] using h

theorem tailsAfter_term (t : Term) (cs : List (Cav Term)) :
    Lemmas.tailsAfter t cs = tailsT t (cs.map encT) := by
  induction cs generalizing t with
  | nil => rfl
  | cons c cs ih => simp [Lemmas.tailsAfter, macCav, tailsT, ih]

/-- C06 `bound_only_with_descendant`, through the verifier.  `x` is a token state under key `atom a'`
and the discharge `d` carries the binding `Bind` computes for it.  If `d` verifies in the discharge
role while `y` is being verified under `atom a` — i.e. against exactly the binding ids `verify`
offers for `y` (C06 `binding_ids`) — then `x` is `y` or an ancestor state of `y`: same key, same
nonce, `x`'s caveats a prefix of `y`'s.  Presented with a less-attenuated ancestor of `x`, a sibling
or an unrelated token, `d` is rejected. -/
theorem bound_only_with_descendant (a a' : Nat) (x y d : Mac Term) (key : Term) (ta : Bool) (r : List (Cav Term))
    (hx : x.tail = chain (mac (atom a') (encNonceT x.nonce)) (x.cavs.map encT))
    (hb : Cav.bind (bindId x.tail) ∈ d.cavs)
    (hv : verifyFlat key d (C06.offeredIds (atom a) y) ta = .ok r) :
    a' = a ∧ x.nonce = y.nonce ∧ x.cavs <+: y.cavs := by
  have h := binding_checked key d _ ta r _ hv hb
  apply bound_fails_elsewhere a a' x y hx
  have e : C06.offeredIds (atom a) y =
      (mac (atom a) (encNonceT y.nonce) :: tailsT (mac (atom a) (encNonceT y.nonce)) (y.cavs.map encT)).map sha := by
    unfold C06.offeredIds
    rw [tailsAfter_term]
    rfl
  rw [← e]; exact h

/-- C06 `bound_accepted_only_with_descendant`: the same from an ACCEPTED presentation.  `y` is accepted
with discharges `dms`; for one of its third-party caveats (`p` in the discharge queue) every presented
candidate carries the binding to `x`.  Then `x` is `y` or an ancestor state of `y`. -/
theorem bound_accepted_only_with_descendant (a a' : Nat) (x y : Mac Term) (dms : List (Mac Term))
    (tr : Bytes → List Term) (cs : List (Cav Term))
    (hx : x.tail = chain (mac (atom a') (encNonceT x.nonce)) (x.cavs.map encT))
    (hv : verify (atom a) y dms tr = .ok cs)
    (p : Pending Term) (hp : p ∈ Lemmas.pendOf (byTicket dms) (macNonce (atom a) y.nonce) y.cavs)
    (hall : ∀ d ∈ p.ds, Cav.bind (bindId x.tail) ∈ d.cavs) :
    a' = a ∧ x.nonce = y.nonce ∧ x.cavs <+: y.cavs := by
  obtain ⟨css, hm, _⟩ := C06.binding_ids (atom a) y dms tr cs hv
  obtain ⟨r, hf, _⟩ := Lemmas.mapM_mem _ _ css hm p hp
  obtain ⟨d, hd, t, hvf⟩ := firstDischarge_some _ _ hf
  exact bound_only_with_descendant a a' x y d p.key _ r hx (hall d hd) hvf

/-- C08 `unfinalised_wire_tail_rejected`: a proof whose tail on the wire is the UNfinalised chain (an
encoder that skipped finalisation, or a hand-built token using the honest chain) is rejected: the
verifier finalises its recomputed chain before comparing, and no chain is its own finalisation -/
theorem unfinalised_wire_tail_rejected (k : Term) (m : Mac Term) (dms : List (Mac Term)) (pids : List Term)
    (ta : Bool) (tr : Bytes → List Term) (hp : m.nonce.proof = true)
    (ht : m.tail = chain (mac k (encNonceT m.nonce)) (m.cavs.map encT)) :
    ∀ cs, verifyWith k m dms pids ta tr ≠ .ok cs := by
  intro cs hv
  have h := sym_verify_tail _ _ _ _ _ _ _ hv
  rw [hp, ht] at h
  simp only [if_true] at h
  have := chain_isMac (mac k (encNonceT m.nonce)) (m.cavs.map encT) rfl
  rw [h] at this; cases this

/-! ### 9. attestations, end to end over honest runs (C07) -/

/-- What the verifier's trust in third parties rests on, as conditions on the RUN (not on what the
attacker presents): the keys it trusts are uncompromised third-party keys; whoever sealed a ticket for
such a third party kept the discharge key secret (it added the third-party caveat BEFORE handing the
token out: `Run.add3p` lets `rn` be declared secret exactly then); and such a third party hands out
its discharges as finalised proofs only. -/
structure TrustedHonest (Sec : Nat → Prop) (s : St) (tr : Bytes → List Term) : Prop where
  keys : ∀ loc, ∀ ka ∈ tr loc, ∃ a, ka = atom a ∧ Sec a
  rn_secret : ∀ ka rn t, (ka, rn, t) ∈ s.tickets → (∃ loc, atom ka ∈ tr loc) → Sec rn
  finalised_only : ∀ ka rn t, (ka, rn, t) ∈ s.tickets → (∃ loc, atom ka ∈ tr loc) →
    ∀ m, (rn, m) ∈ s.published → finalised m = true

/-- the box-origin fact over honest runs (Lemmas/BoxOrigin.lean): what a SECRET third-party key opens,
among everything derivable from the network traffic, is a ticket an issuer of the run sealed for it -/
theorem run_opened_ticket_is_run_ticket (Sec : Nat → Prop) (Held HeldFin : Nat → Term → List Term → Prop)
    (s : St) (r : Run Sec Held HeldFin s) (ka : Nat) (hk : Sec ka) (t dk : Term) (cs : List (Cav Term))
    (hd : Der (· ∈ s.pub) t) (ho : openTicket (atom ka) t = .ok dk cs) :
    ∃ rn, (ka, rn, t) ∈ s.tickets ∧ dk = atom rn :=
  Macaroon.Symbolic.run_opened_ticket_is_run_ticket Sec Held HeldFin s r ka hk t dk cs hd ho

/-- the hypothesis `hT` of `attestation_no_forgery` holds in every honest run whose trusted third
parties are honest (`TrustedHonest`), for every discharge whose key-id the attacker can derive -/
theorem run_discharges_hT (Sec : Nat → Prop) (s : St)
    (r : Run Sec (HeldOf s.published) (HeldFinOf s.published) s) (tr : Bytes → List Term)
    (hT : TrustedHonest Sec s tr) (d : Mac Term) (hkid : Der (· ∈ s.pub) d.nonce.kid) :
    ∀ ka ∈ tr d.loc, ∀ dk cs', openTicket ka d.nonce.kid = .ok dk cs' →
      ∃ rn, dk = atom rn ∧ Sec rn ∧ ∀ cs₁, ¬ HeldOf s.published rn (encNonceT d.nonce) cs₁ := by
  intro ka hka dk cs' ho
  obtain ⟨a, rfl, hsa⟩ := hT.keys _ ka hka
  obtain ⟨rn, hmem, rfl⟩ := run_opened_ticket_is_run_ticket Sec _ _ s r a hsa _ _ _ hkid ho
  refine ⟨rn, rfl, hT.rn_secret a rn _ hmem ⟨_, hka⟩, ?_⟩
  rintro cs₁ ⟨m, hm, hf, _, _⟩
  rw [hT.finalised_only a rn _ hmem ⟨_, hka⟩ m hm] at hf
  cases hf

/-- C07 `run_attestation_provenance`: provenance over honest runs, for ANY presented token (proof or not).
An attestation obtainable from an accepted presentation assembled from the network traffic sits
either at top level of the presented token itself, which is then a proof signed with the verifier's own
key `k` (what such a proof can be is `run_no_forgery_closed`), or at top level of a presented proof
`d` whose key-id is a ticket that an issuer of the run sealed for a third party the verifier trusts
for `d`'s location, `d` being — nonce and whole caveat sequence — a token that third party finalised
and published under that ticket's discharge key. -/
theorem run_attestation_provenance (Sec : Nat → Prop) (s : St)
    (r : Run Sec (HeldOf s.published) (HeldFinOf s.published) s)
    (k : Term) (m : Mac Term) (dms : List (Mac Term)) (tr : Bytes → List Term) (cs : List (Cav Term))
    (hv : verify k m dms tr = .ok cs)
    (hd : ∀ d ∈ dms, Der (· ∈ s.pub) d.tail ∧ Der (· ∈ s.pub) d.nonce.kid)
    (hT : TrustedHonest Sec s tr)
    (a : Cav Term) (ha : a ∈ C07.obtainable cs) :
    a.isAttestation = true ∧
    ((m.nonce.proof = true ∧ a ∈ m.cavs) ∨
     ∃ d ∈ dms, d.nonce.proof = true ∧ a ∈ d.cavs ∧
      ∃ ka rn h, atom ka ∈ tr d.loc ∧ Sec ka ∧ (ka, rn, d.nonce.kid) ∈ s.tickets ∧ Sec rn ∧
        (rn, h) ∈ s.published ∧ finalised h = true ∧ h.nonce = d.nonce ∧ h.cavs = d.cavs) := by
  obtain ⟨hatt, hcase⟩ := C07.attestation_source k m dms tr cs hv a ha
  refine ⟨hatt, ?_⟩
  rcases hcase with hp | ⟨p, hp, d, hdp, hpr, had, htr, r', hvf, _⟩
  · exact Or.inl hp
  · right
    obtain ⟨_, _, ticket, _, hb⟩ := Lemmas.mem_pendOf dms _ _ p hp
    have hin : d ∈ dms := ((Lemmas.mem_byTicket dms ticket p.ds hb).2 d hdp).1
    obtain ⟨ka, hka, dk, cs', hopen, hct⟩ := (C07.trust_needs_matching_ticket (tr d.loc) d.nonce.kid p.key).1 htr
    obtain ⟨a', rfl, hsa⟩ := hT.keys _ ka hka
    obtain ⟨rn, hmem, rfl⟩ := run_opened_ticket_is_run_ticket Sec _ _ s r a' hsa _ _ _ (hd d hin).2 hopen
    have hsrn : Sec rn := hT.rn_secret a' rn _ hmem ⟨_, hka⟩
    have hkey : p.key = atom rn := (LawfulCrypto.ctEq_iff p.key (atom rn)).mp hct
    rw [hkey] at hvf
    refine ⟨d, hin, hpr, had, a', rn, ?_⟩
    rcases discharge_no_forgery Sec _ _ (· ∈ s.pub) (honest_history_safe Sec _ _ s r) rn hsrn d _ _ _
        (hd d hin).1 hvf with ⟨cs₀, ⟨h, hm, hf, _, _⟩, _⟩ | ⟨_, ⟨h, hm, hf, hn, hc⟩⟩
    · rw [hT.finalised_only a' rn _ hmem ⟨_, hka⟩ h hm] at hf
      cases hf
    · exact ⟨h, hka, hsa, hmem, hsrn, hm, hf, (encNonceT_injective hn).symm, (map_encT_injective hc).symm⟩

/-- C07 `run_attestation_no_forgery`: the end-to-end statement over honest runs only.  In every honest
run (`Run`, the declared sets read off the run) whose trusted third parties are honest
(`TrustedHonest`), let a PERMISSION token be accepted under ANY key with discharges assembled from
the network traffic (tails and key-ids derivable from what was published) and let an attestation
be obtainable from the result by typed lookup.  Then it sits at top level of a presented proof `d`
whose key-id is a ticket that an issuer of the run sealed for a third party the verifier trusts for
`d`'s location, and `d` — nonce and whole caveat sequence, nothing appended, nothing wrapped — is a
token that third party finalised and published under that ticket's discharge key.  Copied tickets,
spoofed locations, own third-party caveats under own keys, hand-extended proofs: none yields an
attestation the trusted party did not place. -/
theorem run_attestation_no_forgery (Sec : Nat → Prop) (s : St)
    (r : Run Sec (HeldOf s.published) (HeldFinOf s.published) s)
    (k : Term) (m : Mac Term) (dms : List (Mac Term)) (tr : Bytes → List Term) (cs : List (Cav Term))
    (hv : verify k m dms tr = .ok cs) (hmp : m.nonce.proof = false)
    (hd : ∀ d ∈ dms, Der (· ∈ s.pub) d.tail ∧ Der (· ∈ s.pub) d.nonce.kid)
    (hT : TrustedHonest Sec s tr)
    (a : Cav Term) (ha : a ∈ C07.obtainable cs) :
    a.isAttestation = true ∧
    ∃ d ∈ dms, d.nonce.proof = true ∧ a ∈ d.cavs ∧
      ∃ ka rn h, atom ka ∈ tr d.loc ∧ Sec ka ∧ (ka, rn, d.nonce.kid) ∈ s.tickets ∧ Sec rn ∧
        (rn, h) ∈ s.published ∧ finalised h = true ∧ h.nonce = d.nonce ∧ h.cavs = d.cavs := by
  obtain ⟨hatt, h⟩ := run_attestation_provenance Sec s r k m dms tr cs hv hd hT a ha
  refine ⟨hatt, ?_⟩
  rcases h with ⟨hp, _⟩ | h
  · rw [hmp] at hp; cases hp
  · exact h

/-! ### executable sanity and non-vacuity

The token logic runs on terms; the examples are checked by the kernel (`rfl`/`decide`). -/

section examples

/-- issuer key `atom 0`, key-id a literal, nonce randomness `atom 1` -/
def exM0 : Mac Term := mint (atom 0) (lit [1]) [] (atom 1) false
/-- two caveats added -/
def exM2 : Mac Term := (add exM0 [.plain (.isUser 7), .plain (.action 1)]).1

-- a legit token is accepted and yields its caveats
example : verify (atom 0) exM2 [] (fun _ => []) = .ok [.isUser 7, .action 1] := by rfl
-- a caveat dropped, two caveats swapped, a caveat altered, the nonce version changed, the proof
-- flag flipped: all rejected
example : verify (atom 0) { exM2 with cavs := [.action 1] } [] (fun _ => []) = .error .invalid := by rfl
example : verify (atom 0) { exM2 with cavs := [.action 1, .isUser 7] } [] (fun _ => []) = .error .invalid := by rfl
example : verify (atom 0) { exM2 with cavs := [.isUser 8, .action 1] } [] (fun _ => []) = .error .invalid := by rfl
example : verify (atom 0) { exM2 with nonce := { exM2.nonce with version := 0 } } [] (fun _ => []) = .error .invalid := by rfl
example : verify (atom 0) { exM2 with nonce := { exM2.nonce with proof := true } } [] (fun _ => []) = .error .invalid := by rfl
-- `sym_verify_tail` on it
example : exM2.tail = chain (mac (atom 0) (encNonceT exM2.nonce)) (exM2.cavs.map encT) :=
  sym_verify_tail (atom 0) exM2 [] [] true (fun _ => []) _ (by rfl : verify (atom 0) exM2 [] (fun _ => []) = .ok _)

/-! An honest run with a third-party caveat: issuer key 0, third-party key 5, discharge key 11
(all three declared secret); the issuer mints, adds the 3P caveat and publishes; the third party
discharges, finalises and publishes.  The declared sets are read off the run. -/

def ex3Sec (i : Nat) : Prop := i = 0 ∨ i = 5 ∨ i = 11
def ex3M0 : Mac Term := mint (atom 0) (lit [1]) [] (atom 10) false
def ex3M1 : Mac Term := (add ex3M0 [newCaveat3P (atom 5) [9] [.isUser 3] (atom 11) (atom 12) (atom 13)]).1
def ex3Ticket : Term := sealTicket (atom 5) (atom 12) (atom 11) [.isUser 3]
def ex3D : Mac Term := mint (atom 11) ex3Ticket [9] (atom 14) true
def ex3DF : Mac Term := encodeState ex3D
def ex3S : St :=
  ⟨15, [(11, ex3DF), (11, ex3D), (0, ex3M1), (0, ex3M0)], [(5, 11, ex3Ticket)],
    tokT ex3DF ++ (tokT ex3M1 ++ []), [(11, ex3DF), (0, ex3M1)], [ex3D.nonce, ex3M0.nonce]⟩

/-- the hypotheses of `honest_history_safe` (and with it of every theorem carrying `hH`) are
jointly satisfiable, with a secret discharge key -/
theorem ex3Run : Run ex3Sec (HeldOf ex3S.published) (HeldFinOf ex3S.published) ex3S := by
  have r0 := Run.init (Sec := ex3Sec) (Held := HeldOf ex3S.published) (HeldFin := HeldFinOf ex3S.published) 10
  have r1 := Run.mint 0 (lit [1]) [] false r0 (.lit _) (by simp [ex3Sec])
  have r2 := Run.add3p 0 ex3M0 5 [9] [.isUser 3] r1 (by simp [ex3M0])
    (Der.pair (.skel _) (.lit _)) (by simp [ex3Sec]) (by simp [ex3Sec])
    (fun _ => ⟨Or.inr (Or.inl rfl), Or.inl rfl, by decide, by
      rintro ⟨cs0, ⟨m, hm, hf, hn, rfl⟩, hp⟩
      simp only [ex3S, List.mem_cons, Prod.mk.injEq, List.not_mem_nil, or_false] at hm
      rcases hm with ⟨h, _⟩ | ⟨_, rfl⟩
      · cases h
      · revert hp; decide⟩)
  have r3 := Run.discharge 5 11 ex3Ticket [9] true [.isUser 3] ex3D r2 (by simp [ex3Ticket]) (by simp [ex3Sec]) (by rfl)
  have r4 := Run.encode 11 ex3D r3 (by simp)
  have r5 := Run.publish 0 ex3M1 r4 (by simp [ex3M1, ex3M0]) (fun _ => by
    rw [if_neg (by decide)]
    exact ⟨ex3M1, by simp [ex3S], by decide, rfl, rfl⟩)
  have r6 := Run.publish 11 ex3DF r5 (by simp [ex3DF]) (fun _ => by
    rw [if_pos (by decide)]
    exact ⟨ex3DF, by simp [ex3S], by decide, rfl, rfl⟩)
  exact r6

-- the token with its discharge verifies; without, or with the unfinalised discharge, it does not
example : verify (atom 0) ex3M1 [ex3DF] (fun _ => []) = .ok [] := by rfl
example : verify (atom 0) ex3M1 [] (fun _ => []) = .error .noDischarge := by rfl
example : verify (atom 0) ex3M1 [ex3D] (fun _ => []) = .error .dischargeFailed := by rfl
example : verifyFlat (atom 11) ex3DF [] false = .ok [] := by rfl

-- `run_no_forgery_closed` (hence `no_forgery_token`, `run_no_forgery`): the attacker attenuates the
-- published token; the accepted result extends the published one
example : ∃ h, (0, h) ∈ ex3S.published ∧ h.nonce = ((add ex3M1 [.plain (.action 1)]).1).nonce ∧
    h.cavs <+: ((add ex3M1 [.plain (.action 1)]).1).cavs ∧
    (finalised h = true → h.cavs = ((add ex3M1 [.plain (.action 1)]).1).cavs) :=
  run_no_forgery_closed ex3Sec ex3S ex3Run 0 (Or.inl rfl) (add ex3M1 [.plain (.action 1)]).1 [ex3DF] [] true
    (fun _ => []) [.action 1]
    (Der.mac (.held (by decide)) (Der.pair (.skel _) (.lit _)) :
      Der (· ∈ ex3S.pub) (mac ex3M1.tail (encT (.action 1)))) (by rfl)

example : ∃ cs₀, HeldOf ex3S.published 0 (encNonceT ex3M1.nonce) cs₀ ∧ cs₀ <+: ex3M1.cavs.map encT :=
  no_forgery_token_nonproof ex3Sec _ _ (· ∈ ex3S.pub) (honest_history_safe _ _ _ ex3S ex3Run)
    0 (Or.inl rfl) ex3M1 [ex3DF] [] true (fun _ => []) [] rfl (.held (by decide)) (by rfl)

-- `tampered_discharge_rejected`, `discharge_no_forgery`
example : ∃ dm ∈ [ex3DF], dm.nonce.kid = ex3Ticket ∧
      ((∃ cs₀, HeldOf ex3S.published 11 (encNonceT dm.nonce) cs₀ ∧ cs₀ <+: dm.cavs.map encT) ∨
       (dm.nonce.proof = true ∧ HeldFinOf ex3S.published 11 (encNonceT dm.nonce) (dm.cavs.map encT))) :=
  tampered_discharge_rejected ex3Sec _ _ (· ∈ ex3S.pub) (honest_history_safe _ _ _ ex3S ex3Run)
    (atom 0) ex3M1 [ex3DF] [] true (fun _ => []) [] [] [] [9] (atom 13) ex3Ticket 11
    (Or.inr (Or.inr rfl)) rfl
    (by intro d hd; simp only [List.mem_singleton] at hd; subst hd; exact .held (by decide)) (by rfl)

example := discharge_no_forgery ex3Sec _ _ (· ∈ ex3S.pub) (honest_history_safe _ _ _ ex3S ex3Run)
    11 (Or.inr (Or.inr rfl)) ex3DF [] false [] (.held (by decide)) (by rfl)
example := wrong_secret_rejected 11 11 ex3DF [] [] false false [] [] (by rfl) (by rfl)
example := accepted_discharge_verifies [] true (fun _ => []) (atom 11) [ex3D, ex3DF] []
    (by rfl : firstDischarge [] true (fun _ => []) (atom 11) [ex3D, ex3DF] = some [])

-- `extension_rejected'`: whatever is appended to the finalised discharge, the result is not derivable
example (c : Term) (cs : List Term) :
    ¬ Der (· ∈ ex3S.pub) (fin (chain (chain (mac (atom 11) (encNonceT ex3D.nonce)) []) (c :: cs))) :=
  extension_rejected' ex3Sec _ _ _ (honest_history_safe _ _ _ ex3S ex3Run) 11 (Or.inr (Or.inr rfl)) _ [] c cs
    (by
      rintro cs₁ ⟨m, hm, hf, -, -⟩
      simp only [ex3S, List.mem_cons, Prod.mk.injEq, List.not_mem_nil, or_false] at hm
      rcases hm with ⟨_, rfl⟩ | ⟨h, _⟩
      · revert hf; decide
      · cases h)
    (by
      rintro ⟨m, hm, -, -, hc⟩
      simp only [ex3S, List.mem_cons, Prod.mk.injEq, List.not_mem_nil, or_false] at hm
      rcases hm with ⟨_, rfl⟩ | ⟨h, _⟩
      · simp [ex3DF, ex3D, encodeState, mint] at hc
      · cases h)

-- the unfinalised tail of the discharge, the pre-3P tail of the token and the keys are underivable
example : ¬ Der (· ∈ ex3S.pub) ex3D.tail :=
  unfinalised_tail_secret ex3Sec _ _ _ (honest_history_safe _ _ _ ex3S ex3Run) 11 (Or.inr (Or.inr rfl))
    (encNonceT ex3D.nonce) []
    (by
      rintro ⟨cs₁, ⟨m, hm, hf, -, -⟩, -⟩
      simp only [ex3S, List.mem_cons, Prod.mk.injEq, List.not_mem_nil, or_false] at hm
      rcases hm with ⟨_, rfl⟩ | ⟨h, _⟩
      · revert hf; decide
      · cases h)
example : ¬ Der (· ∈ ex3S.pub) (atom 11) :=
  key_secrecy ex3Sec _ _ _ (honest_history_safe _ _ _ ex3S ex3Run) 11 (Or.inr (Or.inr rfl))
example : ex3S.minted.Pairwise (· ≠ ·) := mint_nonces_distinct _ _ _ ex3S ex3Run

/-! Bindings. -/

/-- the discharge bound to the token carrying the caveat -/
def ex3B : Mac Term := encodeState (bindTo ex3D ex3M1).1
/-- and bound to the state BEFORE the caveat was added (an ancestor's binding works for descendants) -/
def ex3B0 : Mac Term := encodeState (bindTo ex3D ex3M0).1
/-- a later state of the token -/
def ex3M2 : Mac Term := (add ex3M1 [.plain (.action 1)]).1

example : verify (atom 0) ex3M1 [ex3B] (fun _ => []) = .ok [] := by rfl
example : verify (atom 0) ex3M2 [ex3B] (fun _ => []) = .ok [.action 1] := by rfl
example : verify (atom 0) ex3M1 [ex3B0] (fun _ => []) = .ok [] := by rfl
-- bound to the later state, presented with the earlier one: rejected
example : verify (atom 0) ex3M1 [encodeState (bindTo ex3D ex3M2).1] (fun _ => []) = .error .dischargeFailed := by rfl

example : 0 = 0 ∧ ex3M1.nonce = ex3M2.nonce ∧ ex3M1.cavs <+: ex3M2.cavs :=
  bound_fails_elsewhere 0 0 ex3M1 ex3M2 rfl (by rfl)
example := bound_fails_ancestor 0 0 ex3M2 ex3M1 rfl (by decide)
example := binding_checked (atom 11) ex3B
    ((mac (atom 0) (encNonceT ex3M1.nonce) :: tailsT (mac (atom 0) (encNonceT ex3M1.nonce)) (ex3M1.cavs.map encT)).map sha)
    false [] (bindId ex3M1.tail) (by rfl) (by decide)
example := sym_binding_ids (atom 0) ex3M1 [ex3B] [] true (fun _ => []) [] (by rfl)
example := held_prefix_tokens (h := ex3M1) (m := ex3M2) rfl (by decide)
example := sym_verifyFlat_tail (atom 11) ex3DF [] false [] (by rfl)

/-! An attack that SUCCEEDS when a hypothesis is dropped: the attacker also holds the tail that
preceded the third-party caveat (so `rn = atom 11` cannot be declared secret: `Run.add3p` forbids
it, and `hH` fails for this held set).  He opens the VerifierKey, learns `rn`, mints and finalises
a discharge of his own (with his atom 99) — and the verifier accepts it. -/

def exH (t : Term) : Prop := t ∈ tokT ex3M1 ∨ t = ex3M0.tail ∨ t = atom 99
def exForged : Mac Term := encodeState (mint (atom 11) ex3Ticket [9] (atom 99) true)

theorem ex_caveat_held : Der exH (encT (.tp [9] (box ex3M0.tail (atom 13) (atom 11)) ex3Ticket)) :=
  .held (Or.inl (by decide))
theorem ex_rn_leaks : Der exH (atom 11) :=
  .unbox (.fst (.snd ex_caveat_held)) (.held (Or.inr (Or.inl rfl)))
theorem ex_forged_derivable : Der exH exForged.tail := by
  have ht : Der exH ex3Ticket := .fst (.snd (.snd ex_caveat_held))
  show Der exH (fin (mac (atom 11) (pair ex3Ticket (pair (atom 99) (pair (nat 1) (nat 1))))))
  exact .fin (.mac ex_rn_leaks (.pair ht (.pair (.held (Or.inr (Or.inr rfl))) (.pair (.nat _) (.nat _)))))
theorem ex_forged_accepted : verify (atom 0) ex3M1 [exForged] (fun _ => []) = .ok [] := by rfl
/-- the forged discharge is not an extension of anything the third party issued: its nonce is new -/
example : exForged.nonce.rnd ≠ ex3DF.nonce.rnd := by decide

/-! C07: `attestation_no_forgery` is not vacuous -/

/-- a trusted third party's proof with an identity, finalised -/
def exDA : Mac Term := encodeState (add ex3D [.plain (.flyioUserID 7)]).1
def exTrust : Bytes → List Term := fun loc => if loc = [9] then [atom 5] else []
def exHeldFinA : Nat → Term → List Term → Prop :=
  fun a n cs => a = 11 ∧ n = encNonceT exDA.nonce ∧ cs = exDA.cavs.map encT

theorem exDA_tail : exDA.tail = fin (chain (mac (atom 11) (encNonceT exDA.nonce)) (exDA.cavs.map encT)) := by rfl

/-- non-vacuity of `attestation_no_forgery`: the hypotheses hold for the token of the running
example, the trusted party's attesting proof and a verifier trusting `atom 5` for its location;
the identity is obtainable, and the conclusion names the issued proof -/
example : ∃ d ∈ [exDA], d.nonce.proof = true ∧ Cav.flyioUserID 7 ∈ d.cavs ∧
      ∃ rn, ex3Sec rn ∧ exHeldFinA rn (encNonceT d.nonce) (d.cavs.map encT) :=
  (attestation_no_forgery ex3Sec (fun _ _ _ => False) exHeldFinA (· = exDA.tail)
    (by
      rintro t rfl u e
      rw [exDA_tail] at e
      cases e
      rintro (⟨a, _, h⟩ | ⟨a, n, cs, _, h, _⟩ | ⟨a, n, cs, _, h, _, hno⟩)
      · cases h
      · have := chain_isMac (mac (atom a) n) cs rfl; rw [← h] at this; cases this
      · injection h with h
        obtain ⟨rfl, rfl, rfl⟩ := chain_unique h
        exact hno ⟨rfl, rfl, rfl⟩)
    (atom 0) ex3M1 [exDA] exTrust [.flyioUserID 7] (by rfl) (by rfl)
    (by intro d hd; simp only [List.mem_singleton] at hd; subst hd; exact .held rfl)
    (by
      intro d hd ka hka dk cs' ho
      simp only [List.mem_singleton] at hd; subst hd
      have hl : exDA.loc = [9] := by rfl
      rw [hl] at hka
      have : ka = atom 5 := by simpa [exTrust] using hka
      subst this
      have : dk = atom 11 := by
        have h2 : openTicket (atom 5) exDA.nonce.kid = .ok (atom 11) [.isUser 3] := by rfl
        rw [h2] at ho; injection ho with h _; exact h.symm
      exact ⟨11, this, Or.inr (Or.inr rfl), fun _ h => h⟩)
    (.flyioUserID 7) (by decide)).2

/-! C07 end to end over a run: the running example continued — the third party adds the identity to its
discharge, finalises and publishes it; the declared sets are read off the run; the verifier trusts
`atom 5` for the third party's location. -/

/-- the discharge with the identity, before finalisation -/
def exDAu : Mac Term := (add ex3D [.plain (.flyioUserID 7)]).1
def ex4S : St :=
  ⟨15, [(11, exDA), (11, exDAu), (11, ex3D), (0, ex3M1), (0, ex3M0)], [(5, 11, ex3Ticket)],
    tokT exDA ++ (tokT ex3M1 ++ []), [(11, exDA), (0, ex3M1)], [ex3D.nonce, ex3M0.nonce]⟩

theorem ex4Run : Run ex3Sec (HeldOf ex4S.published) (HeldFinOf ex4S.published) ex4S := by
  have r0 := Run.init (Sec := ex3Sec) (Held := HeldOf ex4S.published) (HeldFin := HeldFinOf ex4S.published) 10
  have r1 := Run.mint 0 (lit [1]) [] false r0 (.lit _) (by simp [ex3Sec])
  have r2 := Run.add3p 0 ex3M0 5 [9] [.isUser 3] r1 (by simp [ex3M0])
    (Der.pair (.skel _) (.lit _)) (by simp [ex3Sec]) (by simp [ex3Sec])
    (fun _ => ⟨Or.inr (Or.inl rfl), Or.inl rfl, by decide, by
      rintro ⟨cs0, ⟨m, hm, hf, hn, rfl⟩, hp⟩
      simp only [ex4S, List.mem_cons, Prod.mk.injEq, List.not_mem_nil, or_false] at hm
      rcases hm with ⟨h, _⟩ | ⟨_, rfl⟩
      · cases h
      · revert hp; decide⟩)
  have r3 := Run.discharge 5 11 ex3Ticket [9] true [.isUser 3] ex3D r2 (by simp [ex3Ticket]) (by simp [ex3Sec]) (by rfl)
  have r3a := Run.addPlain 11 ex3D (.flyioUserID 7) r3 (by simp) (Der.pair (.skel _) (.lit _))
  have r4 := Run.encode 11 exDAu r3a (by simp [exDAu])
  have r5 := Run.publish 0 ex3M1 r4 (by simp [ex3M1, ex3M0]) (fun _ => by
    rw [if_neg (by decide)]
    exact ⟨ex3M1, by simp [ex4S], by decide, rfl, rfl⟩)
  have r6 := Run.publish 11 exDA r5 (by simp [exDA, exDAu]) (fun _ => by
    rw [if_pos (by decide)]
    exact ⟨exDA, by simp [ex4S], by decide, rfl, rfl⟩)
  exact r6

/-- the third party of the run is honest in the sense of `TrustedHonest` -/
theorem ex4Trusted : TrustedHonest ex3Sec ex4S exTrust := by
  refine ⟨?_, ?_, ?_⟩
  · intro loc ka hka
    by_cases hl : loc = [9]
    · simp only [exTrust, hl, ↓reduceIte, List.mem_singleton] at hka
      exact ⟨5, hka, Or.inr (Or.inl rfl)⟩
    · simp [exTrust, hl] at hka
  · intro ka rn t hm _
    simp only [ex4S, List.mem_singleton, Prod.mk.injEq] at hm
    exact Or.inr (Or.inr hm.2.1)
  · intro ka rn t hm _ m hp
    simp only [ex4S, List.mem_singleton, Prod.mk.injEq] at hm
    obtain ⟨_, rfl, _⟩ := hm
    simp only [ex4S, List.mem_cons, Prod.mk.injEq, List.not_mem_nil, or_false] at hp
    rcases hp with ⟨_, rfl⟩ | ⟨h, _⟩
    · decide
    · cases h

/-- non-vacuity of `run_attestation_no_forgery` (and with it of `run_discharges_hT`,
`run_opened_ticket_is_run_ticket`, the box-origin invariant): every hypothesis holds for the run, the
identity is obtainable, and the conclusion names the run's ticket and the published proof -/
example : ∃ d ∈ [exDA], d.nonce.proof = true ∧ Cav.flyioUserID 7 ∈ d.cavs ∧
      ∃ ka rn h, atom ka ∈ exTrust d.loc ∧ ex3Sec ka ∧ (ka, rn, d.nonce.kid) ∈ ex4S.tickets ∧ ex3Sec rn ∧
        (rn, h) ∈ ex4S.published ∧ finalised h = true ∧ h.nonce = d.nonce ∧ h.cavs = d.cavs :=
  (run_attestation_no_forgery ex3Sec ex4S ex4Run (atom 0) ex3M1 [exDA] exTrust [.flyioUserID 7] (by rfl) (by rfl)
    (by
      intro d hd
      simp only [List.mem_singleton] at hd; subst hd
      exact ⟨.held (by decide), .held (by decide)⟩)
    ex4Trusted (.flyioUserID 7) (by decide)).2
example := run_discharges_hT ex3Sec ex4S ex4Run exTrust ex4Trusted exDA (.held (by decide))
example := run_attestation_provenance ex3Sec ex4S ex4Run (atom 0) ex3M1 [exDA] exTrust [.flyioUserID 7] (by rfl)
  (by
    intro d hd
    simp only [List.mem_singleton] at hd; subst hd
    exact ⟨.held (by decide), .held (by decide)⟩)
  ex4Trusted (.flyioUserID 7) (by decide)
example : ∃ rn, (5, rn, ex3Ticket) ∈ ex4S.tickets ∧ atom 11 = atom rn :=
  run_opened_ticket_is_run_ticket ex3Sec _ _ ex4S ex4Run 5 (Or.inr (Or.inl rfl)) ex3Ticket (atom 11) [.isUser 3]
    (.held (by decide)) (by rfl)
-- the forged discharge of `exForged` style — minted by the attacker under a key he knows, carrying a copied
-- ticket as key-id — yields nothing: the trust loop refuses it (key mismatch)
example : verify (atom 0) ex3M1 [encodeState (add (mint (atom 99) ex3Ticket [9] (atom 98) true) [.plain (.flyioUserID 666)]).1]
    exTrust = .error .dischargeFailed := by rfl

/-! the direct forms of section 8 -/

example := tail_determines_token 0 ex3M1 { ex3M1 with loc := [7] } [ex3DF] [ex3DF] [] [] true true (fun _ => []) (fun _ => [])
  [] [] (by rfl) (by rfl) rfl
example := ticket_wrong_key (atom 5) (atom 6) (atom 12) (atom 11) [.isUser 3] [9] (atom 14) true (by decide)
example : dischargeTicket (atom 6) [9] ex3Ticket (atom 14) true = .error .cannotOpen :=
  (ticket_wrong_key (atom 5) (atom 6) (atom 12) (atom 11) [.isUser 3] [9] (atom 14) true (by decide)).2
example : dischargeTicket (atom 5) [9] (lit [1, 2, 3]) (atom 14) true = .error .cannotOpen :=
  ticket_altered (atom 5) (lit [1, 2, 3]) [9] (atom 14) true (by intro n pl h; cases h)
example := (seal_twice_differs_sym (atom 5) (atom 12) (atom 12) (atom 11) [.isUser 3] ex3M0.tail (atom 11)).1 rfl
example : 0 = 0 ∧ ex3M1.nonce = ex3M2.nonce ∧ ex3M1.cavs <+: ex3M2.cavs :=
  bound_only_with_descendant 0 0 ex3M1 ex3M2 ex3B (atom 11) true [] rfl (by decide) (by rfl)
theorem ex3_pend : (⟨[ex3B], atom 11⟩ : Pending Term) ∈
    Lemmas.pendOf (byTicket [ex3B]) (macNonce (atom 0) ex3M2.nonce) ex3M2.cavs := by
  have e : Lemmas.pendOf (byTicket [ex3B]) (macNonce (atom 0) ex3M2.nonce) ex3M2.cavs = [⟨[ex3B], atom 11⟩] := by rfl
  rw [e]; exact List.mem_singleton.mpr rfl
example : 0 = 0 ∧ ex3M1.nonce = ex3M2.nonce ∧ ex3M1.cavs <+: ex3M2.cavs :=
  bound_accepted_only_with_descendant 0 0 ex3M1 ex3M2 [ex3B] (fun _ => []) [.action 1] rfl (by rfl) _ ex3_pend
    (by intro d hd; simp only [List.mem_singleton] at hd; subst hd; decide)
example := unfinalised_wire_tail_rejected (atom 11) { ex3D with newProof := false } [] [] false (fun _ => []) rfl rfl
example : verifyFlat (atom 11) { ex3D with newProof := false } [] false = .error .invalid := by rfl

end examples

#print axioms sym_verify_tail
#print axioms sym_verifyFlat_tail
#print axioms no_forgery_token
#print axioms no_forgery_token_nonproof
#print axioms held_prefix_tokens
#print axioms key_secrecy
#print axioms discharge_no_forgery
#print axioms wrong_secret_rejected
#print axioms accepted_discharge_verifies
#print axioms sym_binding_ids
#print axioms binding_checked
#print axioms bound_fails_elsewhere
#print axioms bound_fails_ancestor
#print axioms extension_rejected
#print axioms extension_rejected'
#print axioms unfinalised_tail_secret
#print axioms tampered_discharge_rejected
#print axioms honest_history_safe
#print axioms mint_nonces_distinct
#print axioms run_no_forgery
#print axioms run_no_forgery_closed
#print axioms attestation_no_forgery
#print axioms tail_determines_token
#print axioms ticket_wrong_key
#print axioms ticket_altered
#print axioms seal_twice_differs_sym
#print axioms tailsAfter_term
#print axioms bound_only_with_descendant
#print axioms bound_accepted_only_with_descendant
#print axioms unfinalised_wire_tail_rejected
#print axioms ex3_pend
#print axioms run_opened_ticket_is_run_ticket
#print axioms run_discharges_hT
#print axioms run_attestation_provenance
#print axioms run_attestation_no_forgery
#print axioms Macaroon.Symbolic.der_boxOrigin
#print axioms Macaroon.Symbolic.run_binv
#print axioms ex3Run
#print axioms ex4Run
#print axioms ex4Trusted
#print axioms ex_rn_leaks
#print axioms ex_forged_derivable
#print axioms ex_forged_accepted
#print axioms Macaroon.Symbolic.encT_injective
#print axioms Macaroon.Symbolic.encNonceT_injective
#print axioms Macaroon.Symbolic.der_safe
#print axioms Macaroon.Symbolic.chain_unique

end Macaroon.Props.Symbolic
