/-
C03 — every caveat must clear every request; anything unclear denies.

Property theorems only.  `validate` models `macaroon.Validate`/`CaveatSet.Validate`,
`prohibits` models every registered `Prohibits` method (Macaroon/Caveat/Prohibits.lean);
their tie to /repo is the `clear` correspondence family.
-/
import Macaroon.Lemmas.Clearing

namespace Macaroon.Props.C03
open Macaroon Macaroon.Lemmas
variable {B : Type}

/-- A caveat set authorises a group of requests iff every request is well-formed and every
non-attestation caveat individually permits every request (any number, any order). -/
theorem validate_iff (cs : List (Cav B)) (rs : List Access) :
    validate cs rs = [] ↔
      ∀ r ∈ rs, r.wf = [] ∧ ∀ c ∈ cs, c.isAttestation = false → prohibits c r = [] := by
  unfold validate validateAccess
  simp only [List.flatMap_eq_nil_iff]
  constructor
  · intro h r hr
    have := h r hr
    by_cases hw : r.wf = []
    · simp [hw] at this
      refine ⟨hw, fun c hc ha => ?_⟩
      have := this c hc
      simpa [ha] using this
    · have hne : r.wf.isEmpty = false := by cases hwf : r.wf <;> simp_all
      simp [hne] at this
      exact absurd this hw
  · intro h r hr
    obtain ⟨hw, hc⟩ := h r hr
    simp [hw]
    intro c hcm
    by_cases ha : c.isAttestation = true
    · simp [ha]
    · simp at ha; simp [ha, hc c hcm ha]

/-- a single prohibiting caveat, for a single request among several, is enough to deny -/
theorem single_prohibition_denies (cs : List (Cav B)) (rs : List Access) (c : Cav B) (r : Access)
    (hc : c ∈ cs) (hr : r ∈ rs) (hna : c.isAttestation = false) (hp : prohibits c r ≠ []) :
    validate cs rs ≠ [] := by
  intro h
  exact hp (((validate_iff cs rs).mp h r hr).2 c hc hna)

/-- a single malformed request is enough to deny -/
theorem single_malformed_request_denies (cs : List (Cav B)) (rs : List Access) (r : Access)
    (hr : r ∈ rs) (hw : r.wf ≠ []) : validate cs rs ≠ [] := by
  intro h
  exact hw ((validate_iff cs rs).mp h r hr).1

/-- permission does not depend on the order of caveats or of requests -/
theorem validate_perm (cs cs' : List (Cav B)) (rs rs' : List Access)
    (hc : cs.Perm cs') (hr : rs.Perm rs') : validate cs rs = [] ↔ validate cs' rs' = [] := by
  rw [validate_iff, validate_iff]
  constructor
  · intro h r hrm
    obtain ⟨hw, hcs⟩ := h r (hr.mem_iff.mpr hrm)
    exact ⟨hw, fun c hcm => hcs c (hc.mem_iff.mpr hcm)⟩
  · intro h r hrm
    obtain ⟨hw, hcs⟩ := h r (hr.mem_iff.mp hrm)
    exact ⟨hw, fun c hcm => hcs c (hc.mem_iff.mp hcm)⟩

/-- Caveats that are not access rules never permit: third-party and binding caveats that
reach clearing, unregistered (unknown-type) caveats, and attestations evaluated directly. -/
theorem unevaluable_denies (c : Cav B) (a : Access)
    (h : c.is3P = true ∨ c.isBind = true ∨ c.isAttestation = true ∨ (∃ t raw, c = .unregistered t raw)) :
    prohibits c a ≠ [] := by
  rcases h with h | h | h | ⟨t, raw, rfl⟩
  · cases c <;> simp_all [Cav.is3P, prohibits]
  · cases c <;> simp_all [Cav.isBind, prohibits]
  · cases c <;> simp_all [Cav.isAttestation, prohibits]
  · simp [prohibits]

/-- What a caveat kind needs from the request: the optional interface must be implemented
(together with `GetAction` where the Go interface embeds `resset.Access`) and the value it
inspects must be present. -/
def provides : Cav B → Access → Bool
  | .organization .., a => a.action.isSome && (a.org.bind id).isSome
  | .apps .., a => a.action.isSome && (a.app.bind id).isSome
  | .volumes .., a => a.action.isSome && (a.volume.bind id).isSome
  | .machines .., a => a.action.isSome && (a.machine.bind id).isSome
  | .machineFeatureSet .., a => a.action.isSome && (a.machineFeature.bind id).isSome
  | .featureSet .., a => a.action.isSome && (a.feature.bind id).isSome
  | .appFeatureSet .., a => a.action.isSome && (a.appFeature.bind id).isSome
  | .clusters .., a => a.action.isSome && (a.cluster.bind id).isSome
  | .storageObjects .., a => a.action.isSome && (a.storageObject.bind id).isSome
  | .mutations .., a => (a.mutation.bind id).isSome
  | .action .., a => a.action.isSome
  | .ifPresent .., a => a.action.isSome
  | .fromMachine .., a => (a.sourceMachine.bind id).isSome
  | .flySrc o ap i, a =>
      (i.isEmpty || (a.sourceMachine.bind id).isSome) && (ap.isEmpty || (a.sourceApp.bind id).isSome)
        && (o.isEmpty || (a.sourceOrg.bind id).isSome)
  | .allowedRoles .., a => a.roles.isSome
  | .isMember, a => a.roles.isSome
  | .commands .., a => (a.command.bind id).isSome
  | .confineUser .., a => a.discharge.isSome
  | .confineOrganization .., a => a.discharge.isSome
  | .confineGoogleHD .., a => a.discharge.isSome
  | .confineGitHubOrg .., a => a.discharge.isSome
  | .maxValidity .., a => a.discharge.isSome
  | _, _ => true

/-- a caveat whose rule needs information the request does not provide denies -/
theorem missing_information_denies (c : Cav B) (a : Access) (h : provides c a = false) :
    prohibits c a ≠ [] := by
  cases c <;> simp only [provides, Bool.and_eq_false_iff, Bool.or_eq_false_iff] at h
  case organization id mask =>
    unfold prohibits
    cases ho : a.org with
    | none => simp
    | some o =>
      cases ha : a.action with
      | none => simp
      | some act =>
        cases o with
        | none => simp
        | some v => simp [ho, ha] at h
  case apps rs => unfold prohibits; exact viaGetter_denies _ _ _ (resset_none_denies _ _ rs) h
  case volumes rs => unfold prohibits; exact viaGetter_denies _ _ _ (resset_none_denies _ _ rs) h
  case machines rs => unfold prohibits; exact viaGetter_denies _ _ _ (resset_none_denies _ _ rs) h
  case machineFeatureSet rs => unfold prohibits; exact viaGetter_denies _ _ _ (resset_none_denies _ _ rs) h
  case featureSet rs => unfold prohibits; exact viaGetter_denies _ _ _ (resset_none_denies _ _ rs) h
  case appFeatureSet rs => unfold prohibits; exact viaGetter_denies _ _ _ (resset_none_denies _ _ rs) h
  case clusters rs => unfold prohibits; exact viaGetter_denies _ _ _ (resset_none_denies _ _ rs) h
  case storageObjects rs => unfold prohibits; exact viaGetter_denies _ _ _ (resset_none_denies _ _ rs) h
  case mutations ms =>
    unfold prohibits
    cases hm : a.mutation with
    | none => simp
    | some o => cases o with
      | none => simp
      | some v => simp [hm] at h
  case action m =>
    unfold prohibits
    cases ha : a.action with
    | none => simp
    | some act => simp [ha] at h
  case ifPresent n ifs e =>
    unfold prohibits
    cases ha : a.action with
    | none => simp
    | some act => simp [ha] at h
  case fromMachine i =>
    unfold prohibits
    cases hm : a.sourceMachine with
    | none => simp
    | some o => cases o with
      | none => simp
      | some v => simp [hm] at h
  case flySrc o ap i =>
    unfold prohibits
    simp only [firstErr]
    rcases h with (h | h) | h
    · have := flySrcField_denies i a.sourceMachine (by simpa using h)
      cases hf : flySrcField i a.sourceMachine with
      | nil => exact absurd hf this
      | cons x xs => simp
    · have := flySrcField_denies ap a.sourceApp (by simpa using h)
      cases hf1 : flySrcField i a.sourceMachine with
      | cons x xs => simp
      | nil =>
        cases hf : flySrcField ap a.sourceApp with
        | nil => exact absurd hf this
        | cons x xs => simp
    · have := flySrcField_denies o a.sourceOrg (by simpa using h)
      cases hf1 : flySrcField i a.sourceMachine with
      | cons x xs => simp
      | nil =>
        cases hf2 : flySrcField ap a.sourceApp with
        | cons x xs => simp
        | nil =>
          cases hf : flySrcField o a.sourceOrg with
          | nil => exact absurd hf this
          | cons x xs => simp
  case allowedRoles m =>
    unfold prohibits allowedRolesProhibits
    cases hr : a.roles with
    | none => simp
    | some r => simp [hr] at h
  case isMember =>
    unfold prohibits allowedRolesProhibits
    cases hr : a.roles with
    | none => simp
    | some r => simp [hr] at h
  case commands cs =>
    unfold prohibits
    cases hm : a.command with
    | none => simp
    | some o => cases o with
      | none => simp
      | some v => simp [hm] at h
  case confineUser i =>
    unfold prohibits confineProhibits
    cases hd : a.discharge with
    | none => simp
    | some d => simp [hd] at h
  case confineOrganization i =>
    unfold prohibits confineProhibits
    cases hd : a.discharge with
    | none => simp
    | some d => simp [hd] at h
  case confineGoogleHD i =>
    unfold prohibits confineProhibits
    cases hd : a.discharge with
    | none => simp
    | some d => simp [hd] at h
  case confineGitHubOrg i =>
    unfold prohibits confineProhibits
    cases hd : a.discharge with
    | none => simp
    | some d => simp [hd] at h
  case maxValidity i =>
    unfold prohibits
    cases hd : a.discharge with
    | none => simp
    | some d => simp [hd] at h
  all_goals simp at h

/-- non-vacuity: a request type implementing nothing is refused by every capability-needing kind -/
example : provides (.organization 1 31 : Cav Bytes) (Access.bare 0 0) = false := by decide
example : prohibits (.organization 1 31 : Cav Bytes) (Access.bare 0 0) = [.invalidAccess] := by decide

end Macaroon.Props.C03

#print axioms Macaroon.Props.C03.validate_iff
#print axioms Macaroon.Props.C03.single_prohibition_denies
#print axioms Macaroon.Props.C03.single_malformed_request_denies
#print axioms Macaroon.Props.C03.validate_perm
#print axioms Macaroon.Props.C03.unevaluable_denies
#print axioms Macaroon.Props.C03.missing_information_denies
