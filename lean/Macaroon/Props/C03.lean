/-
C03 — every caveat must clear every request; anything unclear denies.

Property theorems only.  `validate` models `macaroon.Validate`/`CaveatSet.Validate`,
`prohibits` models every registered `Prohibits` method (Macaroon/Caveat/Prohibits.lean);
their tie to /repo is the `clear` correspondence family.
-/
import Macaroon.Lemmas.Clearing
import Macaroon.Lemmas.Monotone

namespace Macaroon.Props.C03
open Macaroon Macaroon.Lemmas
variable {B : Type}

/-- A caveat set authorises a group of requests iff every request is well-formed and every
non-attestation caveat individually permits every request (any number, any order). -/
theorem validate_iff (cs : List (Cav B)) (rs : List Access) :
    validate cs rs = [] ↔
      ∀ r ∈ rs, r.wf = [] ∧ ∀ c ∈ cs, c.isAttestation = false → prohibits c r = [] := by
  unfold validate validateAccess
  simp only [List.flatMap_eq_nil_iff]
  constructor
  · intro h r hr
    have := h r hr
    by_cases hw : r.wf = []
    · simp [hw] at this
      refine ⟨hw, fun c hc ha => ?_⟩
      have := this c hc
      simpa [ha] using this
    · have hne : r.wf.isEmpty = false := by cases hwf : r.wf <;> simp_all
      simp [hne] at this
      exact absurd this hw
  · intro h r hr
    obtain ⟨hw, hc⟩ := h r hr
    simp [hw]
    intro c hcm
    by_cases ha : c.isAttestation = true
    · simp [ha]
    · simp at ha; simp [ha, hc c hcm ha]

/-- a single prohibiting caveat, for a single request among several, is enough to deny -/
theorem single_prohibition_denies (cs : List (Cav B)) (rs : List Access) (c : Cav B) (r : Access)
    (hc : c ∈ cs) (hr : r ∈ rs) (hna : c.isAttestation = false) (hp : prohibits c r ≠ []) :
    validate cs rs ≠ [] := by
  intro h
  exact hp (((validate_iff cs rs).mp h r hr).2 c hc hna)

/-- a single malformed request is enough to deny -/
theorem single_malformed_request_denies (cs : List (Cav B)) (rs : List Access) (r : Access)
    (hr : r ∈ rs) (hw : r.wf ≠ []) : validate cs rs ≠ [] := by
  intro h
  exact hw ((validate_iff cs rs).mp h r hr).1

/-- permission does not depend on the order of caveats or of requests -/
theorem validate_perm (cs cs' : List (Cav B)) (rs rs' : List Access)
    (hc : cs.Perm cs') (hr : rs.Perm rs') : validate cs rs = [] ↔ validate cs' rs' = [] := by
  rw [validate_iff, validate_iff]
  constructor
  · intro h r hrm
    obtain ⟨hw, hcs⟩ := h r (hr.mem_iff.mpr hrm)
    exact ⟨hw, fun c hcm => hcs c (hc.mem_iff.mpr hcm)⟩
  · intro h r hrm
    obtain ⟨hw, hcs⟩ := h r (hr.mem_iff.mp hrm)
    exact ⟨hw, fun c hcm => hcs c (hc.mem_iff.mp hcm)⟩

/-- Caveats that are not access rules never permit: third-party and binding caveats that
reach clearing, unregistered (unknown-type) caveats, and attestations evaluated directly. -/
theorem unevaluable_denies (c : Cav B) (a : Access)
    (h : c.is3P = true ∨ c.isBind = true ∨ c.isAttestation = true ∨ (∃ t raw, c = .unregistered t raw)) :
    prohibits c a ≠ [] := by
  rcases h with h | h | h | ⟨t, raw, rfl⟩
  · cases c <;> simp_all [Cav.is3P, prohibits]
  · cases c <;> simp_all [Cav.isBind, prohibits]
  · cases c <;> simp_all [Cav.isAttestation, prohibits]
  · simp [prohibits]

/-! ### … at any nesting depth -/

mutual
/-- the caveat is, or holds inside conditionals at any depth, a caveat that cannot be evaluated:
third-party, binding, or of an unknown type -/
def holdsUnevaluable : Cav B → Bool
  | .tp .. => true
  | .bind .. => true
  | .unregistered .. => true
  | .ifPresent _ ifs _ => holdsUnevaluableL ifs
  | _ => false
def holdsUnevaluableL : CavList B → Bool
  | .nil => false
  | .cons c cs => holdsUnevaluable c || holdsUnevaluableL cs
end

mutual
/-- a caveat that is or holds an unevaluable caveat denies every request, and never with "resource
unspecified" — so an enclosing conditional cannot skip it -/
theorem holdsUnevaluable_denies : (c : Cav B) → holdsUnevaluable c = true → ∀ a : Access,
    prohibits c a ≠ [] ∧ (prohibits c a).is .resUnspecified = false
  | .tp .., _, a => by simp [prohibits, Errs.is, Err.is]
  | .bind .., _, a => by simp [prohibits, Errs.is, Err.is]
  | .unregistered .., _, a => by simp [prohibits, Errs.is, Err.is]
  | .ifPresent n ifs els, h, a => by
    simp only [holdsUnevaluable] at h
    obtain ⟨x, hx, hd⟩ := holdsUnevaluableL_denies ifs h a
    refine ⟨?_, ifPresent_never_unspecified n ifs els a⟩
    rw [prohibits_ifPresent]
    cases a.action with
    | none => simp
    | some act =>
      cases n with
      | true => simp
      | false =>
        have hxa : x ∈ applicable ifs.toList a := by
          simp only [applicable, List.mem_filter, Bool.not_eq_eq_eq_not, Bool.not_true]
          exact ⟨hx, hd.2⟩
        have hne : (applicable ifs.toList a).isEmpty = false := by
          cases h' : applicable ifs.toList a with
          | nil => rw [h'] at hxa; cases hxa
          | cons _ _ => rfl
        simp only [Bool.false_eq_true, ↓reduceIte, hne, Bool.false_and]
        intro h0
        exact hd.1 (List.flatMap_eq_nil_iff.mp h0 x hxa)
  | .organization .., h, _ | .volumes .., h, _ | .apps .., h, _ | .validityWindow .., h, _
  | .featureSet .., h, _ | .mutations .., h, _ | .machines .., h, _ | .confineUser .., h, _
  | .confineOrganization .., h, _ | .isUser .., h, _ | .machineFeatureSet .., h, _
  | .fromMachine .., h, _ | .clusters .., h, _ | .confineGoogleHD .., h, _ | .confineGitHubOrg .., h, _
  | .maxValidity .., h, _ | .isMember, h, _ | .flyioUserID .., h, _ | .gitHubUserID .., h, _
  | .googleUserID .., h, _ | .action .., h, _ | .commands .., h, _ | .appFeatureSet .., h, _
  | .storageObjects .., h, _ | .allowedRoles .., h, _ | .flySrc .., h, _ => by
    simp [holdsUnevaluable] at h
theorem holdsUnevaluableL_denies : (l : CavList B) → holdsUnevaluableL l = true → ∀ a : Access,
    ∃ x ∈ l.toList, prohibits x a ≠ [] ∧ (prohibits x a).is .resUnspecified = false
  | .nil, h, _ => by simp [holdsUnevaluableL] at h
  | .cons c cs, h, a => by
    simp only [holdsUnevaluableL, Bool.or_eq_true] at h
    rcases h with h | h
    · exact ⟨c, by simp [CavList.toList], holdsUnevaluable_denies c h a⟩
    · obtain ⟨x, hx, hd⟩ := holdsUnevaluableL_denies cs h a
      exact ⟨x, by simp [CavList.toList, hx], hd⟩
end

/-- `nested_unevaluable_denies`: a caveat set one of whose members is, or holds at ANY depth of
conditionals, a third-party caveat, a binding caveat or a caveat of an unknown type authorises no
non-empty group of requests: a conditional never swallows what cannot be evaluated -/
theorem nested_unevaluable_denies (cs : List (Cav B)) (c : Cav B) (hc : c ∈ cs) (hu : holdsUnevaluable c = true)
    (rs : List Access) (hne : rs ≠ []) : validate cs rs ≠ [] := by
  obtain ⟨r, hr⟩ := List.exists_mem_of_ne_nil rs hne
  have hna : c.isAttestation = false := by
    cases c <;> first | rfl | (simp [holdsUnevaluable] at hu)
  exact single_prohibition_denies cs rs c r hc hr hna (holdsUnevaluable_denies c hu r).1

/-- What a caveat kind needs from the request: the optional interface must be implemented
(together with `GetAction` where the Go interface embeds `resset.Access`) and the value it
inspects must be present. -/
def provides : Cav B → Access → Bool
  | .organization .., a => a.action.isSome && (a.org.bind id).isSome
  | .apps .., a => a.action.isSome && (a.app.bind id).isSome
  | .volumes .., a => a.action.isSome && (a.volume.bind id).isSome
  | .machines .., a => a.action.isSome && (a.machine.bind id).isSome
  | .machineFeatureSet .., a => a.action.isSome && (a.machineFeature.bind id).isSome
  | .featureSet .., a => a.action.isSome && (a.feature.bind id).isSome
  | .appFeatureSet .., a => a.action.isSome && (a.appFeature.bind id).isSome
  | .clusters .., a => a.action.isSome && (a.cluster.bind id).isSome
  | .storageObjects .., a => a.action.isSome && (a.storageObject.bind id).isSome
  | .mutations .., a => (a.mutation.bind id).isSome
  | .action .., a => a.action.isSome
  | .ifPresent .., a => a.action.isSome
  | .fromMachine .., a => (a.sourceMachine.bind id).isSome
  | .flySrc o ap i, a =>
      (i.isEmpty || (a.sourceMachine.bind id).isSome) && (ap.isEmpty || (a.sourceApp.bind id).isSome)
        && (o.isEmpty || (a.sourceOrg.bind id).isSome)
  | .allowedRoles .., a => a.roles.isSome
  | .isMember, a => a.roles.isSome
  | .commands .., a => (a.command.bind id).isSome
  | .confineUser .., a => a.discharge.isSome
  | .confineOrganization .., a => a.discharge.isSome
  | .confineGoogleHD .., a => a.discharge.isSome
  | .confineGitHubOrg .., a => a.discharge.isSome
  | .maxValidity .., a => a.discharge.isSome
  | _, _ => true

/-- a caveat whose rule needs information the request does not provide denies -/
theorem missing_information_denies (c : Cav B) (a : Access) (h : provides c a = false) :
    prohibits c a ≠ [] := by
  cases c <;> simp only [provides, Bool.and_eq_false_iff, Bool.or_eq_false_iff] at h
  case organization id mask =>
    unfold prohibits
    cases ho : a.org with
    | none => simp
    | some o =>
      cases ha : a.action with
      | none => simp
      | some act =>
        cases o with
        | none => simp
        | some v => simp [ho, ha] at h
  case apps rs => unfold prohibits; exact viaGetter_denies _ _ _ (resset_none_denies _ _ rs) h
  case volumes rs => unfold prohibits; exact viaGetter_denies _ _ _ (resset_none_denies _ _ rs) h
  case machines rs => unfold prohibits; exact viaGetter_denies _ _ _ (resset_none_denies _ _ rs) h
  case machineFeatureSet rs => unfold prohibits; exact viaGetter_denies _ _ _ (resset_none_denies _ _ rs) h
  case featureSet rs => unfold prohibits; exact viaGetter_denies _ _ _ (resset_none_denies _ _ rs) h
  case appFeatureSet rs => unfold prohibits; exact viaGetter_denies _ _ _ (resset_none_denies _ _ rs) h
  case clusters rs => unfold prohibits; exact viaGetter_denies _ _ _ (resset_none_denies _ _ rs) h
  case storageObjects rs => unfold prohibits; exact viaGetter_denies _ _ _ (resset_none_denies _ _ rs) h
  case mutations ms =>
    unfold prohibits
    cases hm : a.mutation with
    | none => simp
    | some o => cases o with
      | none => simp
      | some v => simp [hm] at h
  case action m =>
    unfold prohibits
    cases ha : a.action with
    | none => simp
    | some act => simp [ha] at h
  case ifPresent n ifs e =>
    unfold prohibits
    cases ha : a.action with
    | none => simp
    | some act => simp [ha] at h
  case fromMachine i =>
    unfold prohibits
    cases hm : a.sourceMachine with
    | none => simp
    | some o => cases o with
      | none => simp
      | some v => simp [hm] at h
  case flySrc o ap i =>
    unfold prohibits
    simp only [firstErr]
    rcases h with (h | h) | h
    · have := flySrcField_denies i a.sourceMachine (by simpa using h)
      cases hf : flySrcField i a.sourceMachine with
      | nil => exact absurd hf this
      | cons x xs => simp
    · have := flySrcField_denies ap a.sourceApp (by simpa using h)
      cases hf1 : flySrcField i a.sourceMachine with
      | cons x xs => simp
      | nil =>
        cases hf : flySrcField ap a.sourceApp with
        | nil => exact absurd hf this
        | cons x xs => simp
    · have := flySrcField_denies o a.sourceOrg (by simpa using h)
      cases hf1 : flySrcField i a.sourceMachine with
      | cons x xs => simp
      | nil =>
        cases hf2 : flySrcField ap a.sourceApp with
        | cons x xs => simp
        | nil =>
          cases hf : flySrcField o a.sourceOrg with
          | nil => exact absurd hf this
          | cons x xs => simp
  case allowedRoles m =>
    unfold prohibits allowedRolesProhibits
    cases hr : a.roles with
    | none => simp
    | some r => simp [hr] at h
  case isMember =>
    unfold prohibits allowedRolesProhibits
    cases hr : a.roles with
    | none => simp
    | some r => simp [hr] at h
  case commands cs =>
    unfold prohibits
    cases hm : a.command with
    | none => simp
    | some o => cases o with
      | none => simp
      | some v => simp [hm] at h
  case confineUser i =>
    unfold prohibits confineProhibits
    cases hd : a.discharge with
    | none => simp
    | some d => simp [hd] at h
  case confineOrganization i =>
    unfold prohibits confineProhibits
    cases hd : a.discharge with
    | none => simp
    | some d => simp [hd] at h
  case confineGoogleHD i =>
    unfold prohibits confineProhibits
    cases hd : a.discharge with
    | none => simp
    | some d => simp [hd] at h
  case confineGitHubOrg i =>
    unfold prohibits confineProhibits
    cases hd : a.discharge with
    | none => simp
    | some d => simp [hd] at h
  case maxValidity i =>
    unfold prohibits
    cases hd : a.discharge with
    | none => simp
    | some d => simp [hd] at h
  all_goals simp at h

/-- the decision depends only on WHICH caveats and WHICH requests are present — not on order, and
not on how often one is repeated (stronger than `validate_perm`) -/
theorem validate_mem_ext (cs cs' : List (Cav B)) (rs rs' : List Access)
    (hc : ∀ c, c ∈ cs ↔ c ∈ cs') (hr : ∀ r, r ∈ rs ↔ r ∈ rs') :
    validate cs rs = [] ↔ validate cs' rs' = [] := by
  rw [validate_iff, validate_iff]
  constructor
  · intro h r hrm
    obtain ⟨hw, hcs⟩ := h r ((hr r).mpr hrm)
    exact ⟨hw, fun c hcm => hcs c ((hc c).mpr hcm)⟩
  · intro h r hrm
    obtain ⟨hw, hcs⟩ := h r ((hr r).mp hrm)
    exact ⟨hw, fun c hcm => hcs c ((hc c).mp hcm)⟩

/-- "every caveat must clear": a set put together from two sets (a token's own caveats and those of
its discharges, say) authorises exactly when both parts do -/
theorem validate_append_caveats (cs cs' : List (Cav B)) (rs : List Access) :
    validate (cs ++ cs') rs = [] ↔ validate cs rs = [] ∧ validate cs' rs = [] := by
  simp only [validate_iff, List.mem_append]
  constructor
  · intro h
    exact ⟨fun r hr => ⟨(h r hr).1, fun c hc => (h r hr).2 c (Or.inl hc)⟩,
           fun r hr => ⟨(h r hr).1, fun c hc => (h r hr).2 c (Or.inr hc)⟩⟩
  · intro ⟨h1, h2⟩ r hr
    exact ⟨(h1 r hr).1, fun c hc => hc.elim ((h1 r hr).2 c) ((h2 r hr).2 c)⟩

/-- "every request": a group of requests is authorised exactly when each part of it is -/
theorem validate_append_requests (cs : List (Cav B)) (rs rs' : List Access) :
    validate cs (rs ++ rs') = [] ↔ validate cs rs = [] ∧ validate cs rs' = [] := by
  simp only [validate_iff, List.mem_append]
  constructor
  · intro h
    exact ⟨fun r hr => h r (Or.inl hr), fun r hr => h r (Or.inr hr)⟩
  · intro ⟨h1, h2⟩ r hr
    exact hr.elim (h1 r) (h2 r)

/-- adding a caveat never turns a denial into a permission -/
theorem validate_cons_caveat_restricts (c : Cav B) (cs : List (Cav B)) (rs : List Access)
    (h : validate (c :: cs) rs = []) : validate cs rs = [] :=
  ((validate_append_caveats [c] cs rs).mp h).2

/-- non-vacuity: a request type implementing nothing is refused by every capability-needing kind -/
example : provides (.organization 1 31 : Cav Bytes) (Access.bare 0 0) = false := by decide
example : prohibits (.organization 1 31 : Cav Bytes) (Access.bare 0 0) = [.invalidAccess] := by decide

/-- non-vacuity: an unknown-type caveat two conditionals deep -/
def deepUnknown : Cav Bytes :=
  .ifPresent false (.cons (.ifPresent false (.cons (.unregistered 99 [0xc0]) .nil) 31) .nil) 31
def readReq : Access := { Access.bare 0 0 with action := some 1 }
def writeReq : Access := { Access.bare 0 0 with action := some 2 }
def badReq : Access := { Access.bare 0 0 with wf := [.other] }
example : holdsUnevaluable deepUnknown = true := by decide
example := nested_unevaluable_denies [(.isUser 1 : Cav Bytes), deepUnknown] deepUnknown (by simp) (by decide)
  [readReq] (by simp)
example : validate [deepUnknown] [readReq] = [.badCaveat] := by decide
example := unevaluable_denies (.tp [1] [2] [3] : Cav Bytes) (Access.bare 0 0) (Or.inl rfl)
example := single_prohibition_denies [(.action 1 : Cav Bytes)] [readReq, writeReq] (.action 1) writeReq
  (by simp) (by simp) rfl (by decide)
example := single_malformed_request_denies ([] : List (Cav Bytes)) [readReq, badReq] badReq (by simp) (by decide)
example := (validate_perm [(.action 1 : Cav Bytes), .isUser 1] [.isUser 1, .action 1] [readReq] [readReq]
  (List.Perm.swap _ _ _) (List.Perm.refl _)).mp (by decide)
example := (validate_mem_ext [(.action 1 : Cav Bytes), .action 1, .isUser 1] [.action 1, .isUser 1] [readReq, readReq] [readReq]
  (by intro c; simp) (by intro r; simp)).mp (by decide)
example := (validate_append_caveats [(.action 1 : Cav Bytes)] [.isUser 1] [readReq]).mp (by decide)
example : validate ([(.action 1 : Cav Bytes)] ++ [.action 2]) [readReq] ≠ [] := by decide
example := (validate_append_requests [(.action 3 : Cav Bytes)] [readReq] [writeReq]).mp (by decide)
example := validate_cons_caveat_restricts (.action 1 : Cav Bytes) [.isUser 1] [readReq] (by decide)

end Macaroon.Props.C03

#print axioms Macaroon.Props.C03.validate_iff
#print axioms Macaroon.Props.C03.single_prohibition_denies
#print axioms Macaroon.Props.C03.single_malformed_request_denies
#print axioms Macaroon.Props.C03.validate_perm
#print axioms Macaroon.Props.C03.unevaluable_denies
#print axioms Macaroon.Props.C03.missing_information_denies
#print axioms Macaroon.Props.C03.holdsUnevaluable_denies
#print axioms Macaroon.Props.C03.holdsUnevaluableL_denies
#print axioms Macaroon.Props.C03.nested_unevaluable_denies
#print axioms Macaroon.Props.C03.validate_mem_ext
#print axioms Macaroon.Props.C03.validate_append_caveats
#print axioms Macaroon.Props.C03.validate_append_requests
#print axioms Macaroon.Props.C03.validate_cons_caveat_restricts
