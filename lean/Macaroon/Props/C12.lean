/-
C12 — Untrusted bytes never crash or balloon the process.                      Level: PARTIAL.

Property theorems only; proofs in `Lemmas/Hostile.lean` (+ `Lemmas/Msgpack.lean`, `Lemmas/Codec.lean`).

What a proof can and cannot say here.  Lean functions are total, so "every operation of the model
returns a value or an error" is true by construction and says nothing.  The content of this file is

(a) the model makes the PARTIAL operations of the Go code explicit and follows the REPAIRED code:
    a conditional whose `Ifs` pointer is nil (`Cav.ifPresent true …`) is a value on which every
    model operation is defined — it denies every request as a bad caveat, typed lookup finds nothing
    inside it, it can be encoded, MACed and decoded back (`nil_ifs_denies`, `nil_ifs_denies_set`,
    `nil_ifs_total`: repair semantics of F2); a body of unknown type in which some map has an
    array, map or byte-string key is refused by the decoder at any depth, never accepted
    (`unhashable_key_rejected`, `accepted_bodies_hashable`: repair semantics of F3); nesting beyond
    the budget is refused before anything is built (`depth_bounded`, `deep_rejected`,
    `deep_rejected_typed`: the budget is the repair candidate for F12);
(b) cost bounds of the decoders: the value tree returned for an input is never larger than the
    bytes consumed — nodes, payload bytes, element counts, nesting (`no_amplification`,
    `decoded_tree_bounded`); the typed layer returns fewer caveats, wrappers included, than the
    input has bytes (`typed_no_amplification`) and at most three times as many payload units
    (`typed_payload_no_amplification`).  No length announced on the wire is ever used to
    size anything: only bytes that are present produce nodes (F5 repair semantics).
(c) the size and the work of `verify` itself (finding F23, known): per third-party caveat one
    candidate's caveats are returned and all candidates with its ticket may be MACed
    (`verify_result_size`, `verify_work_bound`); linear in the input when no ticket is repeated
    (`verify_work_linear_of_distinct_tickets`); multiplied when one is (`repeated_ticket_is_quadratic`,
    `repeated_ticket_example`).  MAC steps are not observable; family `hostile` observes allocation on
    these shapes (`tok.many3p.sameticket.*`).

What is OUTSIDE (exercised by family `hostile`, not proved): that these are ALL the panicking and
allocating sites of the Go code; the Go allocator (`runtime.MemStats.TotalAlloc`, the library's
fixed chunk sizes of 10^4 elements / 10^6 bytes), goroutine stack growth (about 0.5 KB per nesting
level, `fatal error: stack overflow` is not recoverable), the internals of vmihailenco/msgpack and
encoding/json, the whole JSON layer (no JSON model: F4 is tied by the family only), the TIME header
parsing takes (sizes are bounded: `header_no_amplification`; C19 has the grammar), and AEAD key sizes (`Add3P` on a token whose tail is not 32 bytes).
Tie: family `hostile` (Driver/OpsHostile.lean, harness/fam_hostile.go).
-/
import Macaroon.Lemmas.Hostile
import Macaroon.Lemmas.HostileNested
import Macaroon.Lemmas.HostileBytes
import Macaroon.Lemmas.HeaderBounds
import Macaroon.Lemmas.ErrorCount
import Macaroon.Lemmas.VerifyWork
import Macaroon.Crypto.Symbolic
import Macaroon.Token.Concrete

namespace Macaroon.Props.C12
open Macaroon Macaroon.Msgpack Macaroon.Codec Macaroon.Dec Macaroon.Lemmas

/-! ### (b) cost bounds -/

/-- Whatever the byte-level decoder returns is no larger than what it consumed: `size` counts one
per node of the value tree plus every payload byte (strings, byte strings, floats, extensions).
Every node costs at least one input byte. -/
theorem no_amplification (fuel : Nat) (bs : Bytes) (v : V) (rest : Bytes)
    (h : dec fuel bs = some (v, rest)) : size v + rest.length ≤ bs.length :=
  size_add_rest_le fuel bs v rest h

/-- hence: total size, nesting, and the element count of the outermost container are bounded by the
input length (a 5-byte input announcing 2^31 elements yields nothing), and nesting by the budget -/
theorem decoded_tree_bounded (fuel : Nat) (bs : Bytes) (v : V) (rest : Bytes)
    (h : dec fuel bs = some (v, rest)) :
    size v ≤ bs.length ∧ depth v ≤ bs.length ∧ depth v ≤ fuel ∧
    (∀ f xs, v = .arr f xs → xs.length < bs.length) ∧
    (∀ f kvs, v = .map f kvs → kvs.length < bs.length) := by
  have h1 := size_add_rest_le fuel bs v rest h
  have h2 := depth_le_size v
  obtain ⟨_, _, h3⟩ := enc_dec fuel bs v rest h
  refine ⟨by omega, by omega, h3, ?_, ?_⟩
  · intro f xs e; subst e
    have := length_le_sizeL xs
    simp only [size] at h1; omega
  · intro f kvs e; subst e
    have := length_le_sizeL kvs
    simp only [size] at h1; omega

/-- the typed layer: `DecodeCaveats`, `Decode` and ticket decoding return, counting the contents of
wrappers at every depth, at most as many caveats as the input has bytes -/
theorem typed_no_amplification :
    (∀ fuel bs cs, decodeCavs fuel bs = some cs → cavCountList cs < bs.length ∧ cs.length < bs.length) ∧
    (∀ fuel bs m, decodeMac fuel bs = some m → cavCountList m.cavs ≤ bs.length ∧ m.cavs.length ≤ bs.length) ∧
    (∀ fuel bs dk cs, decodeTicket fuel bs = some (dk, cs) → cavCountList cs ≤ bs.length) := by
  refine ⟨?_, ?_, ?_⟩
  · intro fuel bs cs h
    have := decodeCavs_count fuel bs cs h
    have := length_le_cavCountList cs
    omega
  · intro fuel bs m h
    have := decodeMac_count fuel bs m h
    have := length_le_cavCountList m.cavs
    omega
  · intro fuel bs dk cs h
    exact decodeTicket_count fuel bs dk cs h

/-- the typed layer, payload bytes: `cavBytes` counts every variable-size piece of a decoded caveat —
byte strings and strings by length, resource-set entries by key length + 1, slice elements and
commands by length + 1, the big integer of a Google user id by its byte length, the raw body of an
unregistered caveat by its length — at every nesting depth.  What `DecodeCaveats`, `Decode` and ticket
decoding return carries at most THREE times as many such units as the input has bytes (a struct
field is bounded by the body it was read from; no registered struct has more than three variable-size
fields; an unregistered body is a sub-slice of the input).  With `typed_no_amplification` (the number
of caveats) this bounds everything the typed decoders build by a small multiple of the input length. -/
theorem typed_payload_no_amplification :
    (∀ fuel bs cs, decodeCavs fuel bs = some cs → cavBytesList cs ≤ 3 * bs.length) ∧
    (∀ fuel bs m, decodeMac fuel bs = some m → cavBytesList m.cavs ≤ 3 * bs.length) ∧
    (∀ fuel bs dk cs, decodeTicket fuel bs = some (dk, cs) → cavBytesList cs ≤ 3 * bs.length) :=
  decode_bytes

/-! ### (b) header strings and the error value -/

/-- header strings: Base64 decoding never lengthens, so the tokens `Parse` returns are, together,
no longer than the header; the bundle tokeniser makes at most one token per comma-separated part
(`≤ |h| + 1` tokens), and the token texts, as well as the decoded payloads handed to `Decode`, are
together no longer than the header -/
theorem header_no_amplification (h : List Char) :
    (∀ s bs, Base64.decode s = some bs → bs.length ≤ s.length) ∧
    (∀ toks, Header.parse h = .ok toks → (toks.map List.length).sum ≤ h.length) ∧
    (Header.parseToks h).length ≤ h.length + 1 ∧
    ((Header.parseToks h).map fun t => t.str.length).sum + (Header.parseToks h).length ≤ h.length + 1 ∧
    (((Header.parseToks h).filterMap Header.Tok.raw?).map List.length).sum + (Header.parseToks h).length ≤ h.length + 1 :=
  ⟨Base64.decode_length_le, Header.parse_length_le h, (Header.parseToks_bounds h).1,
   (Header.parseToks_bounds h).2.1, (Header.parseToks_bounds h).2.2⟩

/-- the error value of clearing is linear in what was decoded (model side of F18 / F20): one caveat
answers one request with at most one error leaf per caveat it contains (itself and, for a
conditional, its contents at every depth); `Validate` over a request list returns at most the
requests' own well-formedness errors plus `cavCountList cs` leaves per request -/
theorem validate_error_count (cs : List (Cav Bytes)) (rs : List Access) :
    (∀ c a, (prohibits c a : Errs).length ≤ cavCount (c : Cav Bytes)) ∧
    (validate cs rs).length ≤ (rs.map fun a => a.wf.length).sum + rs.length * cavCountList cs :=
  ⟨prohibits_len, validate_len cs rs⟩

/-- … hence, for requests that report at most one well-formedness error — every `flyio.Access`, every
discharge request — at most `|rs| · (cavCountList cs + 1)` leaves; with `typed_no_amplification`
(`cavCountList cs < |input|`) the error list of clearing a decoded set is bounded by the number of
requests times the input length -/
theorem validate_error_count_bounded (cs : List (Cav Bytes)) (rs : List Access)
    (hwf : ∀ a ∈ rs, a.wf.length ≤ 1) : (validate cs rs).length ≤ rs.length * (cavCountList cs + 1) :=
  validate_len_wf cs rs hwf

/-- the hypothesis holds of every `flyio.Access` -/
theorem flyio_access_one_wf_error (f : Flyio.Req) (s : Int) (n : Nat) : (f.toAccess s n).wf.length ≤ 1 :=
  toAccess_wf_len f s n

/-! ### (b) the size and the work of `verify` (finding F23)

`verify` (generic token logic, `Token/Macaroon.lean`) looks up, for EVERY third-party caveat of the
token, the presented discharges carrying its ticket, tries them in order until one is accepted and
appends that one's caveats.  A token whose `k` third-party caveats all carry the same ticket therefore
makes it verify the same discharge `k` times and return its `c` caveats `k` times (F23, a known
finding of the core library: 255 KB in, 2.56 M result caveats).  The theorems below delimit this: the
bounds that always hold are per third-party caveat; they collapse to bounds linear in the input
exactly when no ticket is repeated.  `verifyWork` (Lemmas/VerifyWork.lean) counts MAC steps through the
model's own `walk` / `verifyFlat` / `firstDischarge` (it is defined FROM them, so there is no second
verdict that could disagree).  Tie: MAC steps are not observable from outside; family `hostile`
observes allocation on exactly these shapes (`tok.many3p.sameticket.*`). -/

section verifyWork
variable {B : Type} [Crypto B]
open Macaroon.Crypto

/-- **(1) result size.**  An accepted token returns at most its own caveats plus the caveats of the
candidates that discharged its third-party caveats: `used` holds one presented discharge per
third-party caveat (its key-id is that caveat's ticket); and their total size is at most the sum, over
the third-party caveats, of the sizes of ALL candidates carrying the caveat's ticket (`tpW`). -/
theorem verify_result_size (k : B) (m : Mac B) (dms : List (Mac B)) (tr : Bytes → List B) (cs : List (Cav B))
    (hv : verify k m dms tr = .ok cs) :
    ∃ used : List (Mac B), used.length = count3P m.cavs ∧
      (∀ d ∈ used, d ∈ dms ∧ ∃ loc vk ticket, Cav.tp loc vk ticket ∈ m.cavs ∧ kidEq d.nonce.kid ticket = true) ∧
      cs.length ≤ m.cavs.length + candW (fun d => d.cavs.length) used ∧
      candW (fun d => d.cavs.length) used ≤ tpW (fun d => d.cavs.length) dms m.cavs :=
  Lemmas.verify_result_size k m dms tr cs hv

/-- … hence at most `|token| + (#third-party caveats) · (largest presented discharge)` -/
theorem verify_result_size_max (k : B) (m : Mac B) (dms : List (Mac B)) (tr : Bytes → List B) (cs : List (Cav B))
    (hv : verify k m dms tr = .ok cs) (M : Nat) (hM : ∀ d ∈ dms, d.cavs.length ≤ M) :
    cs.length ≤ m.cavs.length + count3P m.cavs * M := by
  obtain ⟨used, hlen, hmem, hsz, _⟩ := Lemmas.verify_result_size k m dms tr cs hv
  have : candW (fun d : Mac B => d.cavs.length) used ≤ used.length * M := by
    have : ∀ l : List (Mac B), (∀ d ∈ l, d.cavs.length ≤ M) → candW (fun d : Mac B => d.cavs.length) l ≤ l.length * M := by
      intro l
      induction l with
      | nil => intro _; simp [candW]
      | cons x xs ih =>
        intro h
        have h1 := h x List.mem_cons_self
        have h2 := ih fun d hd => h d (List.mem_cons_of_mem _ hd)
        simp only [candW, List.map_cons, List.sum_cons, List.length_cons, Nat.add_mul, Nat.one_mul] at h2 ⊢
        omega
    exact this used fun d hd => hM d (hmem d hd).1
  rw [hlen] at this
  omega

/-- **(2) work bound.**  The MAC steps of `verify` — the token's nonce and caveats, then, per queued
third-party caveat in order, every candidate with that ticket until the first accepted one — are at
most `|token| + 1` plus, for each third-party caveat, `|d| + 1` for every presented discharge `d`
whose key-id is the caveat's ticket. -/
theorem verify_work_bound (k : B) (m : Mac B) (dms : List (Mac B)) (tr : Bytes → List B) :
    verifyWork k m dms [] true tr ≤ m.cavs.length + 1 + tpW (fun d => d.cavs.length + 1) dms m.cavs :=
  verifyWork_le k m dms [] true tr

/-- what `tpW` is: the sum over the token's (top-level) third-party caveats, in order, of the total
weight of the presented discharges whose key-id is the caveat's ticket -/
theorem tpW_def (w : Mac B → Nat) (dms : List (Mac B)) :
    tpW w dms ([] : List (Cav B)) = 0 ∧
    (∀ loc vk ticket cs, tpW w dms (Cav.tp loc vk ticket :: cs) =
      candW w (dms.filter fun d => kidEq d.nonce.kid ticket) + tpW w dms cs) ∧
    (∀ c cs, tpFields? c = none → tpW w dms (c :: cs) = tpW w dms cs) ∧
    (∀ ds : List (Mac B), candW w ds = (ds.map w).sum) := by
  refine ⟨rfl, fun _ _ _ _ => rfl, ?_, fun _ => rfl⟩
  intro c cs h
  simp [tpW, h]

/-- the measure is exact where it matters: a loop that succeeds looked at every caveat -/
theorem walkSteps_exact (proof ta : Bool) (lookup : B → Option (List (Mac B))) (pids : List B)
    (cs : List (Cav B)) (s s' : WalkState B) (h : walk proof ta lookup pids cs s = .ok s') :
    walkSteps proof ta lookup pids cs s = cs.length :=
  walkSteps_of_ok proof ta lookup pids cs s s' h

/-- **(3) linear when no ticket is repeated.**  If the tickets of the token's third-party caveats are
pairwise distinct (and key-ids are compared by equality, as `string(kid)` map keys are: true of both
instances), every presented discharge is a candidate for at most one caveat, so the work is at most
`|token| + 1 + Σ_d (|d| + 1)` over ALL presented discharges and an accepted token returns at most
`|token| + Σ_d |d|` caveats — linear in the input.  F23 needs a repeated ticket. -/
theorem verify_work_linear_of_distinct_tickets (k : B) (m : Mac B) (dms : List (Mac B)) (tr : Bytes → List B)
    (hd : (tickets3 m.cavs).Pairwise (· ≠ ·)) (hk : ∀ a b : B, kidEq a b = true → a = b) :
    verifyWork k m dms [] true tr ≤ m.cavs.length + 1 + candW (fun d => d.cavs.length + 1) dms ∧
    ∀ cs, verify k m dms tr = .ok cs → cs.length ≤ m.cavs.length + candW (fun d => d.cavs.length) dms := by
  constructor
  · have h1 := verifyWork_le k m dms [] true tr
    have h2 := tpW_le_of_distinct (fun d : Mac B => d.cavs.length + 1) m.cavs hd hk dms
    omega
  · intro cs hv
    obtain ⟨used, _, _, h1, h2⟩ := Lemmas.verify_result_size k m dms tr cs hv
    have h3 := tpW_le_of_distinct (fun d : Mac B => d.cavs.length) m.cavs hd hk dms
    omega

/-- **(4) the repeated ticket multiplies.**  When all third-party caveats of an accepted token queue the
same candidate list under the same discharge key (one ticket repeated, every VerifierKey sealing the
same key), the accepted discharge's `|r|` kept caveats are appended once per third-party caveat: the
result has EXACTLY `kept + (#third-party caveats) · |r|` caveats — for every number of caveats and
every discharge size.  (`repeated_ticket_example` below: hypotheses satisfied at 3 × 3.) -/
theorem repeated_ticket_is_quadratic (k : B) (m : Mac B) (dms : List (Mac B)) (tr : Bytes → List B) (cs : List (Cav B))
    (hv : verify k m dms tr = .ok cs) (p0 : Pending B)
    (hsame : ∀ p ∈ pendOf (byTicket dms) (macNonce k m.nonce) m.cavs, p = p0) (r : List (Cav B))
    (hr : firstDischarge (digest (macNonce k m.nonce) :: (tailsAfter (macNonce k m.nonce) m.cavs).map digest)
      true tr p0.key p0.ds = some r) :
    cs.length = (m.cavs.filter (kept true)).length + count3P m.cavs * r.length :=
  repeated_ticket_multiplies k m dms tr cs hv p0 hsame r hr

end verifyWork

section verifyWorkExamples
open Macaroon.Crypto Symbolic Symbolic.Term

/-- issuer key `atom 0`, third-party key `atom 5`, discharge key `atom 11`; ONE ticket -/
def f23Ticket : Term := sealTicket (atom 5) (atom 12) (atom 11) [.isUser 3]
def f23m0 : Mac Term := mint (atom 0) (lit [1]) [] (atom 1) false
/-- three hand-made third-party caveats (different locations, so `Add` keeps them all) carrying the
SAME ticket, each VerifierKey sealing the same discharge key under the tail of its position -/
def f23m1 : Mac Term := (add f23m0 [.plain (.tp [1] (sealKey f23m0.tail (atom 20) (atom 11)) f23Ticket)]).1
def f23m2 : Mac Term := (add f23m1 [.plain (.tp [2] (sealKey f23m1.tail (atom 21) (atom 11)) f23Ticket)]).1
def f23m3 : Mac Term := (add f23m2 [.plain (.tp [3] (sealKey f23m2.tail (atom 22) (atom 11)) f23Ticket), .plain (.isUser 7)]).1
/-- one discharge with three caveats -/
def f23d : Mac Term :=
  encodeState (add (mint (atom 11) f23Ticket [9] (atom 14) true)
    [.plain (.confineUser 5), .plain (.confineUser 6), .plain (.confineUser 8)]).1

/-- F23 at 3 × 3, in the symbolic instance: 4 token caveats (3 third-party), 1 discharge of 3 caveats
in — 1 + 3·3 = 10 caveats out, the discharge's caveats three times over -/
theorem repeated_ticket_example :
    verify (atom 0) f23m3 [f23d] (fun _ => []) =
      .ok [.isUser 7, .confineUser 5, .confineUser 6, .confineUser 8, .confineUser 5, .confineUser 6, .confineUser 8,
        .confineUser 5, .confineUser 6, .confineUser 8] ∧
    count3P f23m3.cavs = 3 ∧ f23d.cavs.length = 3 ∧
    (tickets3 f23m3.cavs) = [f23Ticket, f23Ticket, f23Ticket] := by
  refine ⟨by rfl, by rfl, by rfl, by rfl⟩

/-- the hypotheses of `repeated_ticket_is_quadratic` hold of that example: all three queued caveats
carry the candidate list `[f23d]` under the discharge key `atom 11` -/
example : (verify (atom 0) f23m3 [f23d] (fun _ => [])).toOption.map List.length = some (1 + 3 * 3) := by
  have hp : pendOf (byTicket [f23d]) (macNonce (atom 0) f23m3.nonce) f23m3.cavs
      = [⟨[f23d], atom 11⟩, ⟨[f23d], atom 11⟩, ⟨[f23d], atom 11⟩] := by rfl
  have hv := repeated_ticket_example.1
  have := repeated_ticket_is_quadratic (atom 0) f23m3 [f23d] (fun _ => []) _ hv ⟨[f23d], atom 11⟩
    (by rw [hp]; simp) [.confineUser 5, .confineUser 6, .confineUser 8] (by rfl)
  rw [hv]
  simp only [Except.toOption, Option.map_some, this]
  rfl

/-- … and its work: the discharge is MACed three times (3 · (3 + 1)) on top of the token's 4 + 1 -/
example : verifyWork (atom 0) f23m3 [f23d] [] true (fun _ => []) = 17 := by rfl

/-- non-vacuity of (3): two third-party caveats with DIFFERENT tickets, each with its own discharge:
the hypotheses hold, the result is linear (1 + 1 + 1), and key-ids are compared by equality in both
instances -/
def linTicket2 : Term := sealTicket (atom 5) (atom 32) (atom 31) [.isUser 4]
def linM : Mac Term :=
  (add f23m1 [.plain (.tp [2] (sealKey f23m1.tail (atom 21) (atom 31)) linTicket2), .plain (.isUser 7)]).1
def linD2 : Mac Term := encodeState (add (mint (atom 31) linTicket2 [9] (atom 34) true) [.plain (.confineUser 9)]).1
example : (tickets3 linM.cavs).Pairwise (· ≠ ·) := by decide
example : ∀ a b : Term, kidEq a b = true → a = b := fun a b h => (LawfulCrypto.kidEq_iff a b).mp h
example : ∀ a b : Bytes, kidEq a b = true → a = b := fun a b h => by simpa [Crypto.kidEq] using h
example : verify (atom 0) linM [f23d, linD2] (fun _ => []) =
    .ok [.isUser 7, .confineUser 5, .confineUser 6, .confineUser 8, .confineUser 9] := by rfl
example : verifyWork (atom 0) linM [f23d, linD2] [] true (fun _ => []) = 4 + (3 + 1) + (1 + 1) := by rfl

end verifyWorkExamples

/-! ### (a) nesting: accepted inputs are within the budget, deeper ones are refused -/

/-- every accepted input nests no deeper than the budget -/
theorem depth_bounded (fuel : Nat) (bs : Bytes) (v : V) (rest : Bytes)
    (h : dec fuel bs = some (v, rest)) : depth v ≤ fuel :=
  (enc_dec fuel bs v rest h).2.2

/-- an encoding nested deeper than the budget is refused, whatever follows it -/
theorem deep_rejected (fuel : Nat) (v : V) (rest : Bytes) (hw : WF v = true) (hd : fuel < depth v) :
    dec fuel (enc v ++ rest) = none :=
  Msgpack.deep_rejected fuel v rest hw hd

/-- and so do the typed decoders: `DecodeCaveats`, `Decode`, ticket decoding -/
theorem deep_rejected_typed (fuel : Nat) (v : V) (rest : Bytes) (hw : WF v = true) (hd : fuel < depth v) :
    decodeCavs fuel (enc v ++ rest) = none ∧ decodeMac fuel (enc v ++ rest) = none ∧
      decodeTicket fuel (enc v ++ rest) = none := by
  have h := Msgpack.deep_rejected fuel v rest hw hd
  simp only [decodeCavs, decodeMac, decodeTicket, h, and_self]

/-! ### (a) a conditional with nil `Ifs` (F2 repair semantics) -/

section nilIfs
variable {B : Type}

/-- it prohibits every request: as an invalid access when the request has no action, as a bad
caveat otherwise — never the empty error list -/
theorem nil_ifs_denies (ifs : CavList B) (els : Action) (a : Access) :
    (prohibits (.ifPresent true ifs els) a = [.invalidAccess] ∨
      prohibits (.ifPresent true ifs els) a = [.badCaveat]) ∧
    prohibits (.ifPresent true ifs els) a ≠ [] := by
  unfold prohibits
  cases a.action with
  | none => simp
  | some act => simp

/-- a set holding one (at top level) clears no request -/
theorem nil_ifs_denies_set (cs : List (Cav B)) (ifs : CavList B) (els : Action)
    (hc : Cav.ifPresent true ifs els ∈ cs) (a : Access) (as : List Access) :
    validate cs (a :: as) ≠ [] := by
  intro h
  simp only [validate, List.flatMap_cons, List.append_eq_nil_iff] at h
  obtain ⟨h1, _⟩ := h
  by_cases hwf : a.wf.isEmpty = true
  · simp only [hwf, Bool.not_true, Bool.false_eq_true, ↓reduceIte, validateAccess,
      List.flatMap_eq_nil_iff] at h1
    have := h1 _ hc
    simp only [Cav.isAttestation, Bool.false_eq_true, ↓reduceIte] at this
    exact (nil_ifs_denies ifs els a).2 this
  · simp only [hwf, Bool.not_false, ↓reduceIte] at h1
    rw [h1] at hwf
    exact hwf rfl

end nilIfs

/-- every model operation is defined on it: typed lookup returns the conditional itself or nothing
(never something from inside), it can be encoded — as `[13, [nil, else]]` —, MACed under any tail,
and the decoder returns it from its own encoding -/
theorem nil_ifs_total (els : Action) (p : Cav Bytes → Bool) (t rest : Bytes) (fuel : Nat) (hf : 2 ≤ fuel) :
    let c : Cav Bytes := .ifPresent true .nil els
    getCaveats p [c] = (if p c then [c] else []) ∧
    encodable c = true ∧
    encCav c = [0x92, 0x0d, 0x92, 0xc0] ++ enc (V.ofUint els.toNat) ∧
    (Crypto.macCav t c).isSome = true ∧
    decodeCavs fuel (encCavSet [c] ++ rest) = some [c] := by
  intro c
  refine ⟨?_, ?_, ?_, ?_, ?_⟩
  · simp [c, getCaveats, unwrapGet, getCaveatsL]
  · simp [c, encodable, encodableL]
  · simp [c, encCav, encBody, Cav.typ, V.ofUint, enc, encInt]
  · simp [c, Crypto.macCav, encodable, encodableL]
  · have hw : WFCavs [c] := by
      refine ⟨?_, by simp⟩
      intro x hx
      simp only [List.mem_singleton] at hx
      subst hx
      simp [c, WFCav, WFCavL, CavList.length]
    refine decode_encode_cavs [c] fuel rest hw ?_
    simp only [c, encDepth, cavsV, CavList.ofList, pairsVL, bodyV, depth, depthL, depth_ofUint,
      ↓reduceIte]
    omega

/-! ### (a) bodies of unknown type (F3 repair semantics) -/

/-- a body of an unregistered type in which some map — at any depth — has an array, map or
byte-string key is a decode error, under every budget -/
theorem unhashable_key_rejected (fuel t : Nat) (v : V) (ht : registered t = false)
    (hb : hasBadKey v = true) : cavOfV fuel t v = Except.error () :=
  unregistered_badKey_rejected fuel t v ht hb

/-- conversely: every unregistered caveat of an accepted set (top level) carries the exact bytes of
a well-formed tree without such keys -/
theorem accepted_bodies_hashable (fuel : Nat) (bs : Bytes) (cs : List (Cav Bytes))
    (h : decodeCavs fuel bs = some cs) (henc : ∀ c ∈ cs, encodable c = true)
    (typ : UInt64) (raw : Bytes) (hm : Cav.unregistered typ raw ∈ cs) :
    ∃ v, raw = enc v ∧ WF v = true ∧ genericOk v = true ∧ hasBadKey v = false := by
  obtain ⟨hw, _, _⟩ := reencode fuel bs cs h henc
  have := hw.1 _ hm
  simp only [WFCav, Bool.and_eq_true] at this
  obtain ⟨e, hwf, _, hg⟩ := rawOk_spec raw this.2
  exact ⟨rawV raw, e, hwf, hg, genericOk_noBadKey _ hg⟩

/-- … and so does every unregistered caveat NESTED inside wrappers (conditionals) of an accepted
set, at any depth: what typed lookup (`GetCaveats`, which descends into wrappers) can return is a
well-formed tree without unhashable keys, too -/
theorem accepted_bodies_hashable_nested (fuel : Nat) (bs : Bytes) (cs : List (Cav Bytes))
    (h : decodeCavs fuel bs = some cs) (henc : ∀ c ∈ cs, encodable c = true)
    (typ : UInt64) (raw : Bytes) (hm : Nested (Cav.unregistered typ raw) cs) :
    registered typ.toNat = false ∧
    ∃ v, raw = enc v ∧ WF v = true ∧ v ≠ .nil ∧ genericOk v = true ∧ hasBadKey v = false := by
  obtain ⟨hw, _, _⟩ := reencode fuel bs cs h henc
  have := wfCav_of_nested hm hw.1
  simp only [WFCav, Bool.and_eq_true, Bool.not_eq_true'] at this
  obtain ⟨e, hwf, hn, hg⟩ := rawOk_spec raw this.2
  exact ⟨this.1, rawV raw, e, hwf, hn, hg, genericOk_noBadKey _ hg⟩

/-! ### non-vacuity, and the pre-repair behaviour as negative witnesses -/

-- F5: five bytes announcing 2^31-1 elements decode to nothing (the Go code sized a slice by it)
example : dec 200 [0xdd, 0x7f, 0xff, 0xff, 0xfe] = none := by decide
example : decodeCavs 200 [0xdd, 0x7f, 0xff, 0xff, 0xfe] = none := by
  have h : dec 200 [0xdd, 0x7f, 0xff, 0xff, 0xfe] = none := by decide
  simp only [decodeCavs, h]
-- F2: `[13, [nil, 0]]` is the encoding of the nil-Ifs conditional and decodes to it; it denies
example : encCavSet [.ifPresent true .nil 0] = [0x92, 0x0d, 0x92, 0xc0, 0x00] := by decide
example : decodeCavs 2 [0x92, 0x0d, 0x92, 0xc0, 0x00] = some [.ifPresent true .nil 0] := by
  have := (nil_ifs_total 0 (fun _ => true) [] [] 2 (by decide)).2.2.2.2
  have e : encCavSet [.ifPresent true .nil 0] ++ [] = [0x92, 0x0d, 0x92, 0xc0, 0x00] := by decide
  rwa [e] at this
-- … and so does `[13, []]` (an empty array is the zero struct: Ifs = nil)
example : decodeCavs 2 [0x92, 0x0d, 0x90] = some [.ifPresent true .nil 0] := by
  have he : ([0x92, 0x0d, 0x90] : Bytes)
      = enc (.arr .fix (.cons (.int .posFix 13) (.cons (.arr .fix .nil) .nil))) ++ [] := by decide
  unfold decodeCavs
  rw [he, dec_enc _ 2 _ (by decide) (by decide)]
  simp only [cavsOfV, VL.toList, cavPairs, pure_eq, bind_ok]
  have : asUint 64 (some (.int .posFix 13)) = Except.ok 13 := by
    show Except.ok (((13 : Int) % ((2 ^ 64 : Nat) : Int)).toNat % 2 ^ 64) = Except.ok 13
    have : ((13 : Int) % ((2 ^ 64 : Nat) : Int)).toNat % 2 ^ 64 = 13 := by decide
    rw [this]
  rw [this, bind_ok, cavOfV]
  rfl
example : prohibits (.ifPresent true .nil 31 : Cav Bytes) { Access.bare 0 0 with action := some 1 } = [.badCaveat] := by
  decide
example : prohibits (.ifPresent true .nil 31 : Cav Bytes) (Access.bare 0 0) = [.invalidAccess] := by decide
-- F3: the body `{[]: 1}` under the unallocated type 17 is refused
example : registered 17 = false ∧
    hasBadKey (.map .fix (.cons (.arr .fix .nil) (.cons (.int .posFix 1) .nil))) = true := by decide
example (fuel : Nat) : cavOfV fuel 17 (.map .fix (.cons (.arr .fix .nil) (.cons (.int .posFix 1) .nil)))
    = Except.error () := unhashable_key_rejected fuel 17 _ (by decide) (by decide)
example : genericOk (.map .fix (.cons (.str .fix [0x61]) (.cons (.int .posFix 1) .nil))) = true := by decide
-- F12: three levels under a budget of two are refused, under a budget of three accepted
example : dec 2 [0x91, 0x91, 0x91, 0xc0] = none := by decide
example : (dec 3 [0x91, 0x91, 0x91, 0xc0]).isSome = true := by decide
example : WF (.arr .fix (.cons (.arr .fix (.cons (.arr .fix (.cons .nil .nil)) .nil)) .nil)) = true ∧
    depth (.arr .fix (.cons (.arr .fix (.cons (.arr .fix (.cons .nil .nil)) .nil)) .nil)) = 3 := by decide
-- the size bound is attained: `[nil]` has size 2 and takes 2 bytes
example : dec 1 [0x91, 0xc0] = some (.arr .fix (.cons .nil .nil), []) :=
  dec_enc (.arr .fix (.cons .nil .nil)) 1 [] (by decide) (by decide)
example : size (.arr .fix (.cons .nil .nil)) = 2 := by decide
example : cavCountList [Cav.ifPresent false (.cons (.action 1) (.cons (.isMember) .nil)) 0, .action 1] = 4 := by decide
-- nested: the unregistered caveat of `sampleNested` sits two wrappers deep
example : Nested (Cav.unregistered 99 [0x81, 0xa1, 0x61, 0x01] : Cav Bytes)
    [.ifPresent false (.cons (.ifPresent false (.cons (.unregistered 99 [0x81, 0xa1, 0x61, 0x01]) .nil) 0) .nil) 1] :=
  .inside (List.mem_cons_self ..) (.inside (List.mem_cons_self ..) (.here (List.mem_cons_self ..)))
-- the payload measure on a nested set: key `a` (1 + 1), an unregistered body of 4 bytes inside a
-- wrapper, a third-party caveat with 1 + 2 + 3 bytes
example : cavBytesList [.volumes [([0x61], 3)],
    .ifPresent false (.cons (.unregistered 99 [0x81, 0xa1, 0x61, 0x01]) .nil) 0, .tp [1] [2, 2] [3, 3, 3]] = 12 := by decide
-- header: the hypothesis of the `Parse` clause, and the bound attained by the tokeniser on `,,`
example : Header.parse "FlyV1 fm2_QQ==".toList = .ok [[65]] := by decide
example : (Header.parseToks ",,".toList).length = 3 := by decide
-- error count: a conditional holding two refusing caveats yields two leaves for one request
example : (validate [(.ifPresent false (.cons (.action 0) (.cons (.tp [1] [2] [3]) .nil)) 0 : Cav Bytes)]
    [{ Access.bare 0 0 with action := some 1 }]).length = 2 ∧
    cavCountList [(.ifPresent false (.cons (.action 0) (.cons (.tp [1] [2] [3]) .nil)) 0 : Cav Bytes)] = 3 := by decide
example : ∀ a ∈ [{ Access.bare 0 0 with action := some 1 }], a.wf.length ≤ 1 := by decide

end Macaroon.Props.C12

#print axioms Macaroon.Props.C12.no_amplification
#print axioms Macaroon.Props.C12.decoded_tree_bounded
#print axioms Macaroon.Props.C12.typed_no_amplification
#print axioms Macaroon.Props.C12.depth_bounded
#print axioms Macaroon.Props.C12.deep_rejected
#print axioms Macaroon.Props.C12.deep_rejected_typed
#print axioms Macaroon.Props.C12.nil_ifs_denies
#print axioms Macaroon.Props.C12.nil_ifs_denies_set
#print axioms Macaroon.Props.C12.nil_ifs_total
#print axioms Macaroon.Props.C12.unhashable_key_rejected
#print axioms Macaroon.Props.C12.accepted_bodies_hashable
#print axioms Macaroon.Props.C12.accepted_bodies_hashable_nested
#print axioms Macaroon.Props.C12.typed_payload_no_amplification
#print axioms Macaroon.Props.C12.header_no_amplification
#print axioms Macaroon.Props.C12.validate_error_count
#print axioms Macaroon.Props.C12.validate_error_count_bounded
#print axioms Macaroon.Props.C12.flyio_access_one_wf_error
#print axioms Macaroon.Props.C12.verify_result_size
#print axioms Macaroon.Props.C12.verify_result_size_max
#print axioms Macaroon.Props.C12.verify_work_bound
#print axioms Macaroon.Props.C12.tpW_def
#print axioms Macaroon.Props.C12.walkSteps_exact
#print axioms Macaroon.Props.C12.verify_work_linear_of_distinct_tickets
#print axioms Macaroon.Props.C12.repeated_ticket_is_quadratic
#print axioms Macaroon.Props.C12.repeated_ticket_example
