/-
C12 — Untrusted bytes never crash or balloon the process.                      Level: PARTIAL.

Property theorems only; proofs in `Lemmas/Hostile.lean` (+ `Lemmas/Msgpack.lean`, `Lemmas/Codec.lean`).

What a proof can and cannot say here.  Lean functions are total, so "every operation of the model
returns a value or an error" is true by construction and says nothing.  The content of this file is

(a) the model makes the PARTIAL operations of the Go code explicit and follows the REPAIRED code:
    a conditional whose `Ifs` pointer is nil (`Cav.ifPresent true …`) is a value on which every
    model operation is defined — it denies every request as a bad caveat, typed lookup finds nothing
    inside it, it can be encoded, MACed and decoded back (`nil_ifs_denies`, `nil_ifs_denies_set`,
    `nil_ifs_total`: repair semantics of F2); a body of unknown type in which some map has an
    array, map or byte-string key is refused by the decoder at any depth, never accepted
    (`unhashable_key_rejected`, `accepted_bodies_hashable`: repair semantics of F3); nesting beyond
    the budget is refused before anything is built (`depth_bounded`, `deep_rejected`,
    `deep_rejected_typed`: the budget is the repair candidate for F12);
(b) cost bounds of the decoders: the value tree returned for an input is never larger than the
    bytes consumed — nodes, payload bytes, element counts, nesting (`no_amplification`,
    `decoded_tree_bounded`); the typed layer returns fewer caveats, wrappers included, than the
    input has bytes (`typed_no_amplification`) and at most three times as many payload units
    (`typed_payload_no_amplification`).  No length announced on the wire is ever used to
    size anything: only bytes that are present produce nodes (F5 repair semantics).

What is OUTSIDE (exercised by family `hostile`, not proved): that these are ALL the panicking and
allocating sites of the Go code; the Go allocator (`runtime.MemStats.TotalAlloc`, the library's
fixed chunk sizes of 10^4 elements / 10^6 bytes), goroutine stack growth (about 0.5 KB per nesting
level, `fatal error: stack overflow` is not recoverable), the internals of vmihailenco/msgpack and
encoding/json, the whole JSON layer (no JSON model: F4 is tied by the family only), the TIME header
parsing takes (sizes are bounded: `header_no_amplification`; C19 has the grammar), and AEAD key sizes (`Add3P` on a token whose tail is not 32 bytes).
Tie: family `hostile` (Driver/OpsHostile.lean, harness/fam_hostile.go).
-/
import Macaroon.Lemmas.Hostile
import Macaroon.Lemmas.HostileNested
import Macaroon.Lemmas.HostileBytes
import Macaroon.Lemmas.HeaderBounds
import Macaroon.Lemmas.ErrorCount
import Macaroon.Token.Concrete

namespace Macaroon.Props.C12
open Macaroon Macaroon.Msgpack Macaroon.Codec Macaroon.Dec Macaroon.Lemmas

/-! ### (b) cost bounds -/

/-- Whatever the byte-level decoder returns is no larger than what it consumed: `size` counts one
per node of the value tree plus every payload byte (strings, byte strings, floats, extensions).
Every node costs at least one input byte. -/
theorem no_amplification (fuel : Nat) (bs : Bytes) (v : V) (rest : Bytes)
    (h : dec fuel bs = some (v, rest)) : size v + rest.length ≤ bs.length :=
  size_add_rest_le fuel bs v rest h

/-- hence: total size, nesting, and the element count of the outermost container are bounded by the
input length (a 5-byte input announcing 2^31 elements yields nothing), and nesting by the budget -/
theorem decoded_tree_bounded (fuel : Nat) (bs : Bytes) (v : V) (rest : Bytes)
    (h : dec fuel bs = some (v, rest)) :
    size v ≤ bs.length ∧ depth v ≤ bs.length ∧ depth v ≤ fuel ∧
    (∀ f xs, v = .arr f xs → xs.length < bs.length) ∧
    (∀ f kvs, v = .map f kvs → kvs.length < bs.length) := by
  have h1 := size_add_rest_le fuel bs v rest h
  have h2 := depth_le_size v
  obtain ⟨_, _, h3⟩ := enc_dec fuel bs v rest h
  refine ⟨by omega, by omega, h3, ?_, ?_⟩
  · intro f xs e; subst e
    have := length_le_sizeL xs
    simp only [size] at h1; omega
  · intro f kvs e; subst e
    have := length_le_sizeL kvs
    simp only [size] at h1; omega

/-- the typed layer: `DecodeCaveats`, `Decode` and ticket decoding return, counting the contents of
wrappers at every depth, at most as many caveats as the input has bytes -/
theorem typed_no_amplification :
    (∀ fuel bs cs, decodeCavs fuel bs = some cs → cavCountList cs < bs.length ∧ cs.length < bs.length) ∧
    (∀ fuel bs m, decodeMac fuel bs = some m → cavCountList m.cavs ≤ bs.length ∧ m.cavs.length ≤ bs.length) ∧
    (∀ fuel bs dk cs, decodeTicket fuel bs = some (dk, cs) → cavCountList cs ≤ bs.length) := by
  refine ⟨?_, ?_, ?_⟩
  · intro fuel bs cs h
    have := decodeCavs_count fuel bs cs h
    have := length_le_cavCountList cs
    omega
  · intro fuel bs m h
    have := decodeMac_count fuel bs m h
    have := length_le_cavCountList m.cavs
    omega
  · intro fuel bs dk cs h
    exact decodeTicket_count fuel bs dk cs h

/-- the typed layer, payload bytes: `cavBytes` counts every variable-size piece of a decoded caveat —
byte strings and strings by length, resource-set entries by key length + 1, slice elements and
commands by length + 1, the big integer of a Google user id by its byte length, the raw body of an
unregistered caveat by its length — at every nesting depth.  What `DecodeCaveats`, `Decode` and ticket
decoding return carries at most THREE times as many such units as the input has bytes (a struct
field is bounded by the body it was read from; no registered struct has more than three variable-size
fields; an unregistered body is a sub-slice of the input).  With `typed_no_amplification` (the number
of caveats) this bounds everything the typed decoders build by a small multiple of the input length. -/
theorem typed_payload_no_amplification :
    (∀ fuel bs cs, decodeCavs fuel bs = some cs → cavBytesList cs ≤ 3 * bs.length) ∧
    (∀ fuel bs m, decodeMac fuel bs = some m → cavBytesList m.cavs ≤ 3 * bs.length) ∧
    (∀ fuel bs dk cs, decodeTicket fuel bs = some (dk, cs) → cavBytesList cs ≤ 3 * bs.length) :=
  decode_bytes

/-! ### (b) header strings and the error value -/

/-- header strings: Base64 decoding never lengthens, so the tokens `Parse` returns are, together,
no longer than the header; the bundle tokeniser makes at most one token per comma-separated part
(`≤ |h| + 1` tokens), and the token texts, as well as the decoded payloads handed to `Decode`, are
together no longer than the header -/
theorem header_no_amplification (h : List Char) :
    (∀ s bs, Base64.decode s = some bs → bs.length ≤ s.length) ∧
    (∀ toks, Header.parse h = .ok toks → (toks.map List.length).sum ≤ h.length) ∧
    (Header.parseToks h).length ≤ h.length + 1 ∧
    ((Header.parseToks h).map fun t => t.str.length).sum + (Header.parseToks h).length ≤ h.length + 1 ∧
    (((Header.parseToks h).filterMap Header.Tok.raw?).map List.length).sum + (Header.parseToks h).length ≤ h.length + 1 :=
  ⟨Base64.decode_length_le, Header.parse_length_le h, (Header.parseToks_bounds h).1,
   (Header.parseToks_bounds h).2.1, (Header.parseToks_bounds h).2.2⟩

/-- the error value of clearing is linear in what was decoded (model side of F18 / F20): one caveat
answers one request with at most one error leaf per caveat it contains (itself and, for a
conditional, its contents at every depth); `Validate` over a request list returns at most the
requests' own well-formedness errors plus `cavCountList cs` leaves per request -/
theorem validate_error_count (cs : List (Cav Bytes)) (rs : List Access) :
    (∀ c a, (prohibits c a : Errs).length ≤ cavCount (c : Cav Bytes)) ∧
    (validate cs rs).length ≤ (rs.map fun a => a.wf.length).sum + rs.length * cavCountList cs :=
  ⟨prohibits_len, validate_len cs rs⟩

/-- … hence, for requests that report at most one well-formedness error — every `flyio.Access`, every
discharge request — at most `|rs| · (cavCountList cs + 1)` leaves; with `typed_no_amplification`
(`cavCountList cs < |input|`) the error list of clearing a decoded set is bounded by the number of
requests times the input length -/
theorem validate_error_count_bounded (cs : List (Cav Bytes)) (rs : List Access)
    (hwf : ∀ a ∈ rs, a.wf.length ≤ 1) : (validate cs rs).length ≤ rs.length * (cavCountList cs + 1) :=
  validate_len_wf cs rs hwf

/-- the hypothesis holds of every `flyio.Access` -/
theorem flyio_access_one_wf_error (f : Flyio.Req) (s : Int) (n : Nat) : (f.toAccess s n).wf.length ≤ 1 :=
  toAccess_wf_len f s n

/-! ### (a) nesting: accepted inputs are within the budget, deeper ones are refused -/

/-- every accepted input nests no deeper than the budget -/
theorem depth_bounded (fuel : Nat) (bs : Bytes) (v : V) (rest : Bytes)
    (h : dec fuel bs = some (v, rest)) : depth v ≤ fuel :=
  (enc_dec fuel bs v rest h).2.2

/-- an encoding nested deeper than the budget is refused, whatever follows it -/
theorem deep_rejected (fuel : Nat) (v : V) (rest : Bytes) (hw : WF v = true) (hd : fuel < depth v) :
    dec fuel (enc v ++ rest) = none :=
  Msgpack.deep_rejected fuel v rest hw hd

/-- and so do the typed decoders: `DecodeCaveats`, `Decode`, ticket decoding -/
theorem deep_rejected_typed (fuel : Nat) (v : V) (rest : Bytes) (hw : WF v = true) (hd : fuel < depth v) :
    decodeCavs fuel (enc v ++ rest) = none ∧ decodeMac fuel (enc v ++ rest) = none ∧
      decodeTicket fuel (enc v ++ rest) = none := by
  have h := Msgpack.deep_rejected fuel v rest hw hd
  simp only [decodeCavs, decodeMac, decodeTicket, h, and_self]

/-! ### (a) a conditional with nil `Ifs` (F2 repair semantics) -/

section nilIfs
variable {B : Type}

/-- it prohibits every request: as an invalid access when the request has no action, as a bad
caveat otherwise — never the empty error list -/
theorem nil_ifs_denies (ifs : CavList B) (els : Action) (a : Access) :
    (prohibits (.ifPresent true ifs els) a = [.invalidAccess] ∨
      prohibits (.ifPresent true ifs els) a = [.badCaveat]) ∧
    prohibits (.ifPresent true ifs els) a ≠ [] := by
  unfold prohibits
  cases a.action with
  | none => simp
  | some act => simp

/-- a set holding one (at top level) clears no request -/
theorem nil_ifs_denies_set (cs : List (Cav B)) (ifs : CavList B) (els : Action)
    (hc : Cav.ifPresent true ifs els ∈ cs) (a : Access) (as : List Access) :
    validate cs (a :: as) ≠ [] := by
  intro h
  simp only [validate, List.flatMap_cons, List.append_eq_nil_iff] at h
  obtain ⟨h1, _⟩ := h
  by_cases hwf : a.wf.isEmpty = true
  · simp only [hwf, Bool.not_true, Bool.false_eq_true, ↓reduceIte, validateAccess,
      List.flatMap_eq_nil_iff] at h1
    have := h1 _ hc
    simp only [Cav.isAttestation, Bool.false_eq_true, ↓reduceIte] at this
    exact (nil_ifs_denies ifs els a).2 this
  · simp only [hwf, Bool.not_false, ↓reduceIte] at h1
    rw [h1] at hwf
    exact hwf rfl

end nilIfs

/-- every model operation is defined on it: typed lookup returns the conditional itself or nothing
(never something from inside), it can be encoded — as `[13, [nil, else]]` —, MACed under any tail,
and the decoder returns it from its own encoding -/
theorem nil_ifs_total (els : Action) (p : Cav Bytes → Bool) (t rest : Bytes) (fuel : Nat) (hf : 2 ≤ fuel) :
    let c : Cav Bytes := .ifPresent true .nil els
    getCaveats p [c] = (if p c then [c] else []) ∧
    encodable c = true ∧
    encCav c = [0x92, 0x0d, 0x92, 0xc0] ++ enc (V.ofUint els.toNat) ∧
    (Crypto.macCav t c).isSome = true ∧
    decodeCavs fuel (encCavSet [c] ++ rest) = some [c] := by
  intro c
  refine ⟨?_, ?_, ?_, ?_, ?_⟩
  · simp [c, getCaveats, unwrapGet, getCaveatsL]
  · simp [c, encodable, encodableL]
  · simp [c, encCav, encBody, Cav.typ, V.ofUint, enc, encInt]
  · simp [c, Crypto.macCav, encodable, encodableL]
  · have hw : WFCavs [c] := by
      refine ⟨?_, by simp⟩
      intro x hx
      simp only [List.mem_singleton] at hx
      subst hx
      simp [c, WFCav, WFCavL, CavList.length]
    refine decode_encode_cavs [c] fuel rest hw ?_
    simp only [c, encDepth, cavsV, CavList.ofList, pairsVL, bodyV, depth, depthL, depth_ofUint,
      ↓reduceIte]
    omega

/-! ### (a) bodies of unknown type (F3 repair semantics) -/

/-- a body of an unregistered type in which some map — at any depth — has an array, map or
byte-string key is a decode error, under every budget -/
theorem unhashable_key_rejected (fuel t : Nat) (v : V) (ht : registered t = false)
    (hb : hasBadKey v = true) : cavOfV fuel t v = Except.error () :=
  unregistered_badKey_rejected fuel t v ht hb

/-- conversely: every unregistered caveat of an accepted set (top level) carries the exact bytes of
a well-formed tree without such keys -/
theorem accepted_bodies_hashable (fuel : Nat) (bs : Bytes) (cs : List (Cav Bytes))
    (h : decodeCavs fuel bs = some cs) (henc : ∀ c ∈ cs, encodable c = true)
    (typ : UInt64) (raw : Bytes) (hm : Cav.unregistered typ raw ∈ cs) :
    ∃ v, raw = enc v ∧ WF v = true ∧ genericOk v = true ∧ hasBadKey v = false := by
  obtain ⟨hw, _, _⟩ := reencode fuel bs cs h henc
  have := hw.1 _ hm
  simp only [WFCav, Bool.and_eq_true] at this
  obtain ⟨e, hwf, _, hg⟩ := rawOk_spec raw this.2
  exact ⟨rawV raw, e, hwf, hg, genericOk_noBadKey _ hg⟩

/-- … and so does every unregistered caveat NESTED inside wrappers (conditionals) of an accepted
set, at any depth: what typed lookup (`GetCaveats`, which descends into wrappers) can return is a
well-formed tree without unhashable keys, too -/
theorem accepted_bodies_hashable_nested (fuel : Nat) (bs : Bytes) (cs : List (Cav Bytes))
    (h : decodeCavs fuel bs = some cs) (henc : ∀ c ∈ cs, encodable c = true)
    (typ : UInt64) (raw : Bytes) (hm : Nested (Cav.unregistered typ raw) cs) :
    registered typ.toNat = false ∧
    ∃ v, raw = enc v ∧ WF v = true ∧ v ≠ .nil ∧ genericOk v = true ∧ hasBadKey v = false := by
  obtain ⟨hw, _, _⟩ := reencode fuel bs cs h henc
  have := wfCav_of_nested hm hw.1
  simp only [WFCav, Bool.and_eq_true, Bool.not_eq_true'] at this
  obtain ⟨e, hwf, hn, hg⟩ := rawOk_spec raw this.2
  exact ⟨this.1, rawV raw, e, hwf, hn, hg, genericOk_noBadKey _ hg⟩

/-! ### non-vacuity, and the pre-repair behaviour as negative witnesses -/

-- F5: five bytes announcing 2^31-1 elements decode to nothing (the Go code sized a slice by it)
example : dec 200 [0xdd, 0x7f, 0xff, 0xff, 0xfe] = none := by decide
example : decodeCavs 200 [0xdd, 0x7f, 0xff, 0xff, 0xfe] = none := by
  have h : dec 200 [0xdd, 0x7f, 0xff, 0xff, 0xfe] = none := by decide
  simp only [decodeCavs, h]
-- F2: `[13, [nil, 0]]` is the encoding of the nil-Ifs conditional and decodes to it; it denies
example : encCavSet [.ifPresent true .nil 0] = [0x92, 0x0d, 0x92, 0xc0, 0x00] := by decide
example : decodeCavs 2 [0x92, 0x0d, 0x92, 0xc0, 0x00] = some [.ifPresent true .nil 0] := by
  have := (nil_ifs_total 0 (fun _ => true) [] [] 2 (by decide)).2.2.2.2
  have e : encCavSet [.ifPresent true .nil 0] ++ [] = [0x92, 0x0d, 0x92, 0xc0, 0x00] := by decide
  rwa [e] at this
-- … and so does `[13, []]` (an empty array is the zero struct: Ifs = nil)
example : decodeCavs 2 [0x92, 0x0d, 0x90] = some [.ifPresent true .nil 0] := by
  have he : ([0x92, 0x0d, 0x90] : Bytes)
      = enc (.arr .fix (.cons (.int .posFix 13) (.cons (.arr .fix .nil) .nil))) ++ [] := by decide
  unfold decodeCavs
  rw [he, dec_enc _ 2 _ (by decide) (by decide)]
  simp only [cavsOfV, VL.toList, cavPairs, pure_eq, bind_ok]
  have : asUint 64 (some (.int .posFix 13)) = Except.ok 13 := by
    show Except.ok (((13 : Int) % ((2 ^ 64 : Nat) : Int)).toNat % 2 ^ 64) = Except.ok 13
    have : ((13 : Int) % ((2 ^ 64 : Nat) : Int)).toNat % 2 ^ 64 = 13 := by decide
    rw [this]
  rw [this, bind_ok, cavOfV]
  rfl
example : prohibits (.ifPresent true .nil 31 : Cav Bytes) { Access.bare 0 0 with action := some 1 } = [.badCaveat] := by
  decide
example : prohibits (.ifPresent true .nil 31 : Cav Bytes) (Access.bare 0 0) = [.invalidAccess] := by decide
-- F3: the body `{[]: 1}` under the unallocated type 17 is refused
example : registered 17 = false ∧
    hasBadKey (.map .fix (.cons (.arr .fix .nil) (.cons (.int .posFix 1) .nil))) = true := by decide
example (fuel : Nat) : cavOfV fuel 17 (.map .fix (.cons (.arr .fix .nil) (.cons (.int .posFix 1) .nil)))
    = Except.error () := unhashable_key_rejected fuel 17 _ (by decide) (by decide)
example : genericOk (.map .fix (.cons (.str .fix [0x61]) (.cons (.int .posFix 1) .nil))) = true := by decide
-- F12: three levels under a budget of two are refused, under a budget of three accepted
example : dec 2 [0x91, 0x91, 0x91, 0xc0] = none := by decide
example : (dec 3 [0x91, 0x91, 0x91, 0xc0]).isSome = true := by decide
example : WF (.arr .fix (.cons (.arr .fix (.cons (.arr .fix (.cons .nil .nil)) .nil)) .nil)) = true ∧
    depth (.arr .fix (.cons (.arr .fix (.cons (.arr .fix (.cons .nil .nil)) .nil)) .nil)) = 3 := by decide
-- the size bound is attained: `[nil]` has size 2 and takes 2 bytes
example : dec 1 [0x91, 0xc0] = some (.arr .fix (.cons .nil .nil), []) :=
  dec_enc (.arr .fix (.cons .nil .nil)) 1 [] (by decide) (by decide)
example : size (.arr .fix (.cons .nil .nil)) = 2 := by decide
example : cavCountList [Cav.ifPresent false (.cons (.action 1) (.cons (.isMember) .nil)) 0, .action 1] = 4 := by decide
-- nested: the unregistered caveat of `sampleNested` sits two wrappers deep
example : Nested (Cav.unregistered 99 [0x81, 0xa1, 0x61, 0x01] : Cav Bytes)
    [.ifPresent false (.cons (.ifPresent false (.cons (.unregistered 99 [0x81, 0xa1, 0x61, 0x01]) .nil) 0) .nil) 1] :=
  .inside (List.mem_cons_self ..) (.inside (List.mem_cons_self ..) (.here (List.mem_cons_self ..)))
-- the payload measure on a nested set: key `a` (1 + 1), an unregistered body of 4 bytes inside a
-- wrapper, a third-party caveat with 1 + 2 + 3 bytes
example : cavBytesList [.volumes [([0x61], 3)],
    .ifPresent false (.cons (.unregistered 99 [0x81, 0xa1, 0x61, 0x01]) .nil) 0, .tp [1] [2, 2] [3, 3, 3]] = 12 := by decide
-- header: the hypothesis of the `Parse` clause, and the bound attained by the tokeniser on `,,`
example : Header.parse "FlyV1 fm2_QQ==".toList = .ok [[65]] := by decide
example : (Header.parseToks ",,".toList).length = 3 := by decide
-- error count: a conditional holding two refusing caveats yields two leaves for one request
example : (validate [(.ifPresent false (.cons (.action 0) (.cons (.tp [1] [2] [3]) .nil)) 0 : Cav Bytes)]
    [{ Access.bare 0 0 with action := some 1 }]).length = 2 ∧
    cavCountList [(.ifPresent false (.cons (.action 0) (.cons (.tp [1] [2] [3]) .nil)) 0 : Cav Bytes)] = 3 := by decide
example : ∀ a ∈ [{ Access.bare 0 0 with action := some 1 }], a.wf.length ≤ 1 := by decide

end Macaroon.Props.C12

#print axioms Macaroon.Props.C12.no_amplification
#print axioms Macaroon.Props.C12.decoded_tree_bounded
#print axioms Macaroon.Props.C12.typed_no_amplification
#print axioms Macaroon.Props.C12.depth_bounded
#print axioms Macaroon.Props.C12.deep_rejected
#print axioms Macaroon.Props.C12.deep_rejected_typed
#print axioms Macaroon.Props.C12.nil_ifs_denies
#print axioms Macaroon.Props.C12.nil_ifs_denies_set
#print axioms Macaroon.Props.C12.nil_ifs_total
#print axioms Macaroon.Props.C12.unhashable_key_rejected
#print axioms Macaroon.Props.C12.accepted_bodies_hashable
#print axioms Macaroon.Props.C12.accepted_bodies_hashable_nested
#print axioms Macaroon.Props.C12.typed_payload_no_amplification
#print axioms Macaroon.Props.C12.header_no_amplification
#print axioms Macaroon.Props.C12.validate_error_count
#print axioms Macaroon.Props.C12.validate_error_count_bounded
#print axioms Macaroon.Props.C12.flyio_access_one_wf_error
