/-
The generic token theorems for the CONCRETE instance.

The token logic (Token/Macaroon.lean) is written once over `Crypto B`; its theorems carry
`[LawfulCrypto B]`.  `B := Bytes` with HMAC-SHA256, SHA-256, ChaCha20-Poly1305 and the msgpack codec
(Token/Concrete.lean) is the instance compiled into the driver and compared with the Go code byte
for byte.  `LawfulCrypto Bytes` is proved in Lemmas/ConcreteLawful.lean (from Lemmas/ConcreteCrypto.lean:
the AEAD round trip, the sizes of MACs and digests; and from Lemmas/Codec.lean: the ticket codec
round trip), so the headline theorems of C02/C04/C05 hold for the very model that is tied to the
code.  They are restated here for `Bytes` with every hypothesis explicit:

* a key is a 32-byte string (`chacha20poly1305.New` refuses any other size),
* an AEAD nonce is a 12-byte string (`seal` draws `NonceSize` random bytes),
* a ticket body is a discharge key shorter than 2^32 bytes and a caveat set within the encoder's
  domain (`WFCavs`) whose encoding nests at most `defaultFuel - 1` deep (the model decoder's budget;
  the Go decoder has none, see C12).

The MAC root key `k` is unconstrained (HMAC takes any key); every later key of the chain is a MAC,
hence 32 bytes (`legit_tail_is_key`), so the VerifierKey of every third-party caveat of a
legitimate token opens.  Nothing here is a security claim about the primitives: these are the
functional (round-trip, size) facts the token logic needs; unforgeability is Props/Symbolic.lean.
Property theorems only; proofs by instantiation.
-/
import Macaroon.Lemmas.ConcreteLawful
import Macaroon.Props.C02
import Macaroon.Props.C04
import Macaroon.Props.C05
import Macaroon.Props.C11
import Macaroon.Props.C08

namespace Macaroon.Props.Concrete
open Macaroon Macaroon.Crypto Macaroon.Lemmas Macaroon.Lemmas.ConcreteCrypto

/-! ### the primitives: round trips and sizes -/

/-- ChaCha20-Poly1305 (RFC 8439 §2.8) as modelled: opening what was sealed, with the same key, nonce
and associated data, returns the plaintext — for ALL byte arrays (the model's primitives are total:
short keys and nonces are read as zero-extended; the size checks of the real API sit in `unbox`) -/
theorem aead_roundtrip (key nonce plaintext aad : ByteArray) :
    aeadOpen key nonce (aeadSeal key nonce plaintext aad) aad = some plaintext :=
  aeadOpen_aeadSeal key nonce plaintext aad

/-- ChaCha20 is its own inverse under the same key, counter and nonce -/
theorem chacha20_involutive (key : ByteArray) (counter : UInt32) (nonce data : ByteArray) :
    chacha20Xor key counter nonce (chacha20Xor key counter nonce data) = data :=
  chacha20Xor_involutive key counter nonce data

/-- `unseal(key, seal(key, buf)) = buf` of macaroon.go, for a 32-byte key and a 12-byte nonce -/
theorem seal_roundtrip (key nonce buf : Bytes) (hk : key.length = 32) (hn : nonce.length = 12) :
    Concrete.unbox key (Concrete.box key nonce buf) = some buf :=
  unbox_box key nonce buf hk hn

/-- both size conditions are necessary in the model (as in the Go code): a 31-byte key is refused,
and with an 11-byte nonce the split at 12 bytes takes a ciphertext byte into the nonce — whatever
bytes the AEAD produced (`ct`, at least the 16-byte tag) -/
theorem seal_needs_sizes :
    (∀ buf : Bytes, Concrete.unbox (List.replicate 31 0) buf = none) ∧
    (∀ (nonce ct : Bytes), nonce.length = 11 → ct ≠ [] → (nonce ++ ct).take 12 ≠ nonce) := by
  constructor
  · intro buf
    unfold Concrete.unbox
    split
    · rfl
    · rfl
  · intro nonce ct hn hct h
    have := congrArg List.length h
    cases ct with
    | nil => exact hct rfl
    | cons c cs => simp [List.length_take, hn] at this; omega

/-- SHA-256 digests, HMAC-SHA256 tags and Poly1305 tags have their sizes -/
theorem primitive_sizes :
    (∀ msg : ByteArray, (sha256 msg).size = 32) ∧
    (∀ key msg : ByteArray, (hmacSha256 key msg).size = 32) ∧
    (∀ key msg : ByteArray, (poly1305 key msg).size = 16) ∧
    (∀ key (c : UInt32) nonce data, (chacha20Xor key c nonce data).size = data.size) :=
  ⟨sha256_size, hmacSha256_size, poly1305_size, chacha20Xor_size⟩

/-- every value of the MAC chain of the concrete instance is a 32-byte string — a valid AEAD key —
whatever the size of the key it was derived under; binding ids are 16 bytes -/
theorem chain_values_are_keys :
    (∀ (k : Bytes) (n : GNonce Bytes), (macNonce k n).length = 32) ∧
    (∀ (t : Bytes) (c : Cav Bytes) (t' : Bytes), macCav t c = some t' → t'.length = 32) ∧
    (∀ t : Bytes, (finalize t).length = 32) ∧
    (∀ t : Bytes, (digest t).length = 32) ∧ (∀ t : Bytes, (bindId t).length = 16) :=
  ⟨macNonce_length, macCav_length, finalize_length, digest_length, bindId_length⟩

/-- the ticket plaintext round trip at the driver's budget (C11 `decode_encode_ticket`) -/
theorem ticket_plaintext_roundtrip (dk : Bytes) (cs : List (Cav Bytes))
    (hk : dk.length < 2 ^ 32) (hw : WFCavs cs) (hd : 1 + encDepth cs ≤ defaultFuel) :
    decodeTicket defaultFuel (encTicket dk cs) = some (dk, cs) :=
  decodeTicket_encTicket dk cs ⟨hk, hw, hd⟩

/-- the two sealing laws of the interface, concretely -/
theorem verifierKey_roundtrip (tail nonce rn : Bytes) (ht : tail.length = 32) (hn : nonce.length = 12) :
    unsealKey tail (sealKey tail nonce rn) = some rn :=
  ConcreteCrypto.unsealKey_sealKey tail nonce rn ht hn

theorem sealed_ticket_opens (ka nonce dk : Bytes) (cs : List (Cav Bytes)) (hka : ka.length = 32)
    (hn : nonce.length = 12) (hk : dk.length < 2 ^ 32) (hw : WFCavs cs) (hd : 1 + encDepth cs ≤ defaultFuel) :
    openTicket ka (sealTicket ka nonce dk cs) = .ok dk cs :=
  ConcreteCrypto.openTicket_sealTicket ka nonce dk cs hka hn ⟨hk, hw, hd⟩

/-- C04 `seal_twice_differs`, byte level (the deterministic half): `seal` writes its 12-byte AEAD nonce in
front of the ciphertext, so two sealings — of the same content or not, under the same key or not —
that drew different nonces are different byte strings.  That two draws differ is `crypto/rand`. -/
theorem box_nonce_injective (key key' n n' buf buf' : Bytes) (hn : n.length = 12) (hn' : n'.length = 12)
    (h : Concrete.box key n buf = Concrete.box key' n' buf') : n = n' := by
  unfold Concrete.box at h
  exact (List.append_inj h (by rw [hn, hn'])).1

theorem sealTicket_nonce_injective (ka n n' dk : Bytes) (cs : List (Cav Bytes)) (hn : n.length = 12) (hn' : n'.length = 12)
    (h : sealTicket ka n dk cs = sealTicket ka n' dk cs) : n = n' :=
  box_nonce_injective ka ka n n' _ _ hn hn' h

/-! ### what `Legit` asks of the arguments of `Add`, concretely -/

/-- a legitimate argument of `Add` over bytes: an ordinary caveat, or a fresh third-party caveat
whose VerifierKey nonce is 12 bytes (which is what `seal` draws) -/
theorem legitItem_iff (it : AddItem Bytes) :
    LegitItem it ↔ match it with
      | .plain c => ordinary c = true
      | .new3p _ _ _ nonce => nonce.length = 12 := by
  constructor
  · intro h
    cases h with
    | plain c hc => exact hc
    | new3p loc ticket rn nonce hn => exact hn
  · intro h
    cases it with
    | plain c => exact .plain c h
    | new3p loc ticket rn nonce => exact .new3p loc ticket rn nonce h

/-- the tail of every legitimate token is a 32-byte key, whatever the size of the root key `k` -/
theorem legit_tail_is_key (k : Bytes) (m : Mac Bytes) (h : Legit k m) : m.tail.length = 32 :=
  okKey_chain m.cavs _ _ (macNonce_length k m.nonce) (legit_inv k m h).tail

/-! ### C05 for the concrete instance -/

/-- a freshly minted token verifies under the minting key (any key size), whatever comes along -/
theorem mint_verifies (k kid loc rnd : Bytes) (dms : List (Mac Bytes)) (tr : Bytes → List Bytes) :
    verify k (mint k kid loc rnd false) dms tr = .ok [] :=
  C05.mint_verifies k kid loc rnd dms tr

/-- `legit_chain` concretely: the invariant of legitimate histories -/
theorem legit_chain (k : Bytes) (m : Mac Bytes) (h : Legit k m) :
    m.nonce.proof = false ∧ m.newProof = false ∧
    chain (macNonce k m.nonce) m.cavs = some m.tail ∧
    walkOK false (fun _ => some []) [] (macNonce k m.nonce) m.cavs = true :=
  let ⟨h1, h2, h3, h4, _⟩ := C05.legit_chain k m h
  ⟨h1, h2, h3, h4⟩

/-- `legit_secrets` concretely: the VerifierKey sealed by `Add` under the tail (a 32-byte MAC) with
a 12-byte nonce is opened by `verify` under the same tail, to the discharge key that went in -/
theorem legit_secrets (k : Bytes) (m : Mac Bytes) (items : List (AddItem Bytes)) (hL : Legit k m)
    (hit : ∀ it ∈ items, LegitItem it) (hok : (add m items).2 = none) :
    secrets k (add m items).1 = secrets k m ++ newSecrets (dedup m.cavs items []) :=
  C05.legit_secrets k m items hL hit hok

/-- `legit_verifies` for the concrete model: a legitimately produced token (mint under any key,
then any successful `Add` calls of ordinary caveats and fresh third-party caveats with 12-byte
VerifierKey nonces, encode steps anywhere), presented with one legitimate finalised discharge per
third-party caveat, is accepted by the concrete `verify` — real HMAC chain, real AEAD opening of
each VerifierKey — and yields its first-party caveats followed by the discharges' kept caveats -/
theorem legit_verifies (k : Bytes) (m : Mac Bytes) (hL : Legit k m) (dms : List (Mac Bytes))
    (tr : Bytes → List Bytes) (dbs : List (Mac Bytes × Bool))
    (h : Aligned (GoodDischarge k m dms tr) (secrets k m) dbs) :
    verify k m dms tr = .ok (m.cavs.filter (kept true) ++ (dbs.map contrib).flatten) :=
  C05.legit_verifies k m hL dms tr dbs h

/-- … in particular a legitimate token without third-party caveats, with any discharges alongside -/
theorem legit_firstParty_verifies (k : Bytes) (m : Mac Bytes) (hL : Legit k m) (dms : List (Mac Bytes))
    (tr : Bytes → List Bytes) (h3 : secrets k m = []) : verify k m dms tr = .ok (m.cavs.filter (kept true)) :=
  C05.legit_firstParty_verifies k m hL dms tr h3

/-- `discharge_from_ticket_is_legit` for the concrete model: for a 32-byte third-party key, a
12-byte ticket nonce and a ticket body within the codec's domain, the third party opens the ticket
of `NewCaveat3P` (real ChaCha20-Poly1305, real msgpack), learns exactly the caveats `cs`, and the
discharge it mints is legitimate and rooted at the discharge key `rn` -/
theorem discharge_from_ticket_is_legit (ka loc : Bytes) (cs : List (Cav Bytes)) (rn tn vn rnd : Bytes)
    (p : Bool) (tails : List Bytes)
    (hka : ka.length = 32) (htn : tn.length = 12)
    (hrn : rn.length < 2 ^ 32) (hw : WFCavs cs) (hd : 1 + encDepth cs ≤ defaultFuel) :
    ∃ ticket d, newCaveat3P ka loc cs rn tn vn = .new3p loc ticket rn vn ∧
      dischargeTicket ka loc ticket rnd p = .ok (cs, d) ∧ LegitDis rn ticket tails d :=
  C05.discharge_from_ticket_is_legit ka loc cs rn tn vn rnd p tails hka htn ⟨hrn, hw, hd⟩

/-- C04 `ticket_roundtrip` concretely, with the discharge spelled out -/
theorem ticket_roundtrip (ka loc : Bytes) (cs : List (Cav Bytes)) (rn tn vn rnd : Bytes) (p : Bool)
    (hka : ka.length = 32) (htn : tn.length = 12)
    (hrn : rn.length < 2 ^ 32) (hw : WFCavs cs) (hd : 1 + encDepth cs ≤ defaultFuel) :
    ∃ ticket, newCaveat3P ka loc cs rn tn vn = .new3p loc ticket rn vn ∧
      dischargeTicket ka loc ticket rnd p = .ok (cs, mint rn ticket loc rnd p) :=
  C04.ticket_roundtrip ka loc cs rn tn vn rnd p hka htn ⟨hrn, hw, hd⟩

/-- `legit_discharge_verifies` for the concrete model (no size hypothesis: a discharge carries no
sealed key; its root key `rn` is an HMAC key of any size) -/
theorem legit_discharge_verifies (rn ticket : Bytes) (tails ids : List Bytes) (d : Mac Bytes) (ta : Bool)
    (h : LegitDis rn ticket tails d) (hfin : (d.nonce.proof && d.newProof) = false)
    (hids : ∀ t ∈ tails, digest t ∈ ids) :
    verifyFlat rn d ids ta = .ok (d.cavs.filter (kept ta)) ∧ d.nonce.kid = ticket :=
  C05.legit_discharge_verifies rn ticket tails ids d ta h hfin hids

/-- the trust loop accepts the third party's own key: it opens the ticket to the discharge key -/
theorem trusted_not_refused (ka : Bytes) (rest : List Bytes) (tn rn : Bytes) (cs : List (Cav Bytes))
    (hka : ka.length = 32) (htn : tn.length = 12)
    (hrn : rn.length < 2 ^ 32) (hw : WFCavs cs) (hd : 1 + encDepth cs ≤ defaultFuel) :
    trustOf (ka :: rest) (sealTicket ka tn rn cs) rn = some true :=
  C05.trusted_not_refused ka rest tn rn cs hka htn ⟨hrn, hw, hd⟩

/-! ### `Add` succeeds, concretely: "any field values ⇒ Add succeeds ⇒ verifies" -/

/-- a third-party caveat can always be encoded: its fields are byte strings -/
theorem tpEncodable_bytes : TpEncodable Bytes := by
  intro t loc vk ticket
  simp [Crypto.macCav, encodable]

/-- at byte level "can be MACed under any key" is "can be encoded" (`encodable`: everything except an
unregistered caveat that lost its body, at any wrapper depth) -/
theorem macCav_isSome_iff (t : Bytes) (c : Cav Bytes) : (Crypto.macCav t c).isSome = encodable c := by
  simp only [Crypto.macCav]
  cases encodable c <;> rfl

/-- `add_succeeds` for the byte-level model, every premise explicit: the token is not a finalised
proof; every caveat of the token and every plain argument is `encodable`; no plain argument is an
attestation (unless the token is a proof) or wraps one; the new third-party locations are pairwise
different and not among `locs3P` of the token.  Then `Add` returns nil. -/
theorem add_succeeds (m : Mac Bytes) (items : List (AddItem Bytes))
    (hf : (m.nonce.proof && !m.newProof) = false)
    (hem : ∀ c ∈ m.cavs, encodable c = true) (hei : ∀ c, AddItem.plain c ∈ items → encodable c = true)
    (hp : ∀ c, AddItem.plain c ∈ items → (c.isAttestation && !m.nonce.proof) = false ∧ c.wrapsAttestation = false)
    (hnd : (newLocs items).Nodup) (hfr : ∀ l ∈ newLocs items, l ∉ locs3P m.cavs) :
    (add m items).2 = none := by
  apply C05.add_succeeds tpEncodable_bytes m items hf _ hp hnd hfr
  simp only [allEncodable, List.all_append, List.all_map, Bool.and_eq_true, List.all_eq_true]
  constructor
  · intro c hc; rw [macCav_isSome_iff]; exact hem c hc
  · intro it hi
    cases it with
    | plain c => simp only [Function.comp, AddItem.asCav]; rw [macCav_isSome_iff]; exact hei c hi
    | new3p loc ticket rn nonce => exact tpEncodable_bytes m.tail loc Crypto.empty ticket

/-- on a legitimate byte-level token the call succeeds and the result is legitimate: ordinary encodable
caveats of any kinds and values, fresh third-party caveats (12-byte VerifierKey nonce) for new,
pairwise different locations -/
theorem legit_add_succeeds (k : Bytes) (m : Mac Bytes) (hL : Legit k m) (items : List (AddItem Bytes))
    (hit : ∀ it ∈ items, LegitItem it) (hei : ∀ c, AddItem.plain c ∈ items → encodable c = true)
    (hnd : (newLocs items).Nodup) (hfr : ∀ l ∈ newLocs items, l ∉ locs3P m.cavs) :
    (add m items).2 = none ∧ Legit k (add m items).1 :=
  C05.legit_add_succeeds tpEncodable_bytes k m hL items hit
    (fun c hc t => by rw [macCav_isSome_iff]; exact hei c hc) hnd hfr

/-- `legit_add_then_verifies` for the byte-level model -/
theorem legit_add_then_verifies (k : Bytes) (m : Mac Bytes) (hL : Legit k m) (items : List (AddItem Bytes))
    (hit : ∀ it ∈ items, LegitItem it) (hei : ∀ c, AddItem.plain c ∈ items → encodable c = true)
    (hnd : (newLocs items).Nodup) (hfr : ∀ l ∈ newLocs items, l ∉ locs3P m.cavs)
    (dms : List (Mac Bytes)) (tr : Bytes → List Bytes) (dbs : List (Mac Bytes × Bool))
    (h : Aligned (GoodDischarge k (add m items).1 dms tr) (secrets k (add m items).1) dbs) :
    (add m items).2 = none ∧
    verify k (add m items).1 dms tr =
      .ok ((add m items).1.cavs.filter (kept true) ++ (dbs.map contrib).flatten) :=
  C05.legit_add_then_verifies tpEncodable_bytes k m hL items hit
    (fun c hc t => by rw [macCav_isSome_iff]; exact hei c hc) hnd hfr dms tr dbs h

/-- `firstParty_history_verifies` for the byte-level model: mint under any key and nonce format, any
number of `Add` calls with ordinary encodable caveats of any registered kinds and field values —
real msgpack, real HMAC chain: every call succeeds and the token verifies, yielding the added
caveats in order of addition with equal ENCODINGS collapsed -/
theorem firstParty_history_verifies (k kid loc rnd : Bytes) (ver : Nat) (calls : List (List (Cav Bytes)))
    (hall : ∀ cs ∈ calls, ∀ c ∈ cs, ordinary c = true ∧ encodable c = true)
    (dms : List (Mac Bytes)) (tr : Bytes → List Bytes) :
    Legit k (addAll (mintV k kid loc rnd ver false) calls) ∧
    (addAll (mintV k kid loc rnd ver false) calls).cavs = collapse [] calls.flatten ∧
    verify k (addAll (mintV k kid loc rnd ver false) calls) dms tr = .ok (collapse [] calls.flatten) :=
  C05.firstParty_history_verifies tpEncodable_bytes k kid loc rnd ver calls
    (fun cs hcs c hc => ⟨(hall cs hcs c hc).1, fun t => by rw [macCav_isSome_iff]; exact (hall cs hcs c hc).2⟩) dms tr

/-- `history_verifies` for the byte-level model: mint under any key and nonce format, any number of `Add`
calls with ordinary `encodable` caveats (no third-party caveat inside a wrapper) and fresh third-party
caveats (12-byte VerifierKey nonces) for pairwise different locations: every call succeeds, and with
one good discharge per third-party caveat the token verifies — real msgpack, HMAC chain and AEAD -/
theorem history_verifies (k kid loc rnd : Bytes) (ver : Nat) (calls : List (List (AddItem Bytes)))
    (hit : ∀ its ∈ calls, ∀ it ∈ its, LegitItem it ∧ noInner3P it)
    (hei : ∀ its ∈ calls, ∀ c, AddItem.plain c ∈ its → encodable c = true)
    (hnd : (newLocs calls.flatten).Nodup)
    (dms : List (Mac Bytes)) (tr : Bytes → List Bytes) (dbs : List (Mac Bytes × Bool))
    (h : Aligned (GoodDischarge k (addCalls (mintV k kid loc rnd ver false) calls) dms tr)
      (secrets k (addCalls (mintV k kid loc rnd ver false) calls)) dbs) :
    Legit k (addCalls (mintV k kid loc rnd ver false) calls) ∧
    verify k (addCalls (mintV k kid loc rnd ver false) calls) dms tr =
      .ok ((addCalls (mintV k kid loc rnd ver false) calls).cavs.filter (kept true) ++ (dbs.map contrib).flatten) :=
  C05.history_verifies tpEncodable_bytes k kid loc rnd ver calls hit
    (fun its hi c hc t => by rw [macCav_isSome_iff]; exact hei its hi c hc) hnd dms tr dbs h

/-- the same history is legitimate (hence: its tail is a key, every VerifierKey opens, hops are the identity …) -/
theorem history_is_legit (k kid loc rnd : Bytes) (ver : Nat) (calls : List (List (AddItem Bytes)))
    (hit : ∀ its ∈ calls, ∀ it ∈ its, LegitItem it ∧ noInner3P it)
    (hei : ∀ its ∈ calls, ∀ c, AddItem.plain c ∈ its → encodable c = true)
    (hnd : (newLocs calls.flatten).Nodup) :
    Legit k (addCalls (mintV k kid loc rnd ver false) calls) :=
  legit_addCalls tpEncodable_bytes k calls _ (.minted kid loc rnd ver) hit
    (fun its hi c hc t => by rw [macCav_isSome_iff]; exact hei its hi c hc)
    (by simpa [mintV, locs3P, getCaveats] using hnd)

/-! ### wire hops: what the next holder decodes is what the previous holder encoded (C05, C02, C11) -/

/-- the bytes `Encode` writes for a token state -/
def wireBytes (m : Mac Bytes) : Bytes := encMac (Concrete.toWire m)

/-- the token can travel: nonce, location, caveats and tail are within the encoder's domain
(`WFMac`: what every decoded token satisfies, C11 `reencode_fixed_point_mac`), its nesting is within
the decoder's budget and every caveat can be encoded -/
def Wireable (m : Mac Bytes) : Prop :=
  WFMac (Concrete.toWire m) ∧ 1 + max 1 (encDepth m.cavs) ≤ defaultFuel ∧ m.cavs.all encodable = true

/-- a wire hop — `Encode` by one holder, `Decode` by the next — is the identity on a token state that
is not a proof awaiting finalisation (`Encode` does not change it) and not marked new: the decoded
token is the encoded one, field for field (C11 `decode_encode_mac` at the driver's budget) -/
theorem wire_hop (m : Mac Bytes) (hs : encodeState m = m) (hn : m.newProof = false) (hw : Wireable m) :
    Concrete.encode m = (m, some (wireBytes m)) ∧ Concrete.decode (wireBytes m) = some m := by
  obtain ⟨hwf, hd, he⟩ := hw
  constructor
  · simp [Concrete.encode, hs, he, wireBytes]
  · have := C11.decode_encode_mac (Concrete.toWire m) defaultFuel [] hwf (by simpa [Concrete.toWire] using hd)
    rw [List.append_nil] at this
    simp only [Concrete.decode, wireBytes, this, Option.map_some, Option.some.injEq]
    cases m with | mk n l c t np =>
    cases n
    simp only [Concrete.ofWire, Concrete.toWire, Concrete.ofNonce, Concrete.toNonce]
    simp only at hn
    subst hn; rfl

/-- `legit_hop`: a legitimate token handed on as bytes arrives as the same legitimate token — "each
holder working only from the encoded token" adds nothing to `Legit`: a hop is the identity -/
theorem legit_hop (k : Bytes) (m : Mac Bytes) (hL : Legit k m) (hw : Wireable m) :
    ∃ bs, Concrete.encode m = (m, some bs) ∧ Concrete.decode bs = some m ∧
      ∀ m', Concrete.decode bs = some m' → Legit k m' := by
  have inv := legit_inv k m hL
  obtain ⟨h1, h2⟩ := wire_hop m (encodeState_nonproof m inv.notProof) inv.notNew hw
  refine ⟨wireBytes m, h1, h2, ?_⟩
  intro m' hm'
  rw [h2] at hm'
  cases hm'; exact hL

/-- attenuation by a holder working from bytes: decode, `Add`, encode -/
theorem legit_attenuate_from_bytes (k : Bytes) (m : Mac Bytes) (hL : Legit k m) (hw : Wireable m)
    (items : List (AddItem Bytes)) (hit : ∀ it ∈ items, LegitItem it) :
    ∃ c, Concrete.decode (wireBytes m) = some c ∧ ((add c items).2 = none → Legit k (add c items).1) := by
  have inv := legit_inv k m hL
  obtain ⟨_, h2⟩ := wire_hop m (encodeState_nonproof m inv.notProof) inv.notNew hw
  exact ⟨m, h2, fun hok => .added m items hL hit hok⟩

theorem filterMap_decode_wire : ∀ (ds : List (Mac Bytes)),
    (∀ d ∈ ds, encodeState d = d ∧ d.newProof = false ∧ Wireable d) →
    (ds.map wireBytes).filterMap Concrete.decode = ds
  | [], _ => rfl
  | d :: ds, h => by
    obtain ⟨h1, h2, h3⟩ := h d (by simp)
    simp only [List.map_cons, List.filterMap_cons, (wire_hop d h1 h2 h3).2]
    rw [filterMap_decode_wire ds (fun x hx => h x (List.mem_cons_of_mem _ hx))]

/-- `legit_verifies_bytes`: `legit_verifies` through `(*Macaroon).Verify` on BYTES.  The discharges are
presented as the byte strings their holders encoded (finalised, within the encoder's domain), with
any number of byte strings that do not decode alongside (`Verify` ignores malformed discharges): the
legitimate token is accepted and yields its first-party caveats followed by the discharges' kept
caveats -/
theorem legit_verifies_bytes (k : Bytes) (m : Mac Bytes) (hL : Legit k m) (dms : List (Mac Bytes))
    (tr : Bytes → List Bytes) (dbs : List (Mac Bytes × Bool))
    (h : Aligned (GoodDischarge k m dms tr) (secrets k m) dbs)
    (hw : ∀ d ∈ dms, encodeState d = d ∧ d.newProof = false ∧ Wireable d)
    (junk : List Bytes) (hj : ∀ j ∈ junk, Concrete.decode j = none) :
    Concrete.verifyBytes k m (dms.map wireBytes ++ junk) tr =
      .ok (m.cavs.filter (kept true) ++ (dbs.map contrib).flatten) := by
  have hjunk : junk.filterMap Concrete.decode = [] := by
    apply List.filterMap_eq_nil_iff.mpr
    exact hj
  unfold Concrete.verifyBytes
  rw [List.filterMap_append, filterMap_decode_wire dms hw, hjunk, List.append_nil]
  exact C05.legit_verifies k m hL dms tr dbs h

/-- malformed discharge bytes presented alongside change nothing (C04) -/
theorem verifyBytes_ignores_malformed (k : Bytes) (m : Mac Bytes) (ds junk : List Bytes) (tr : Bytes → List Bytes)
    (hj : ∀ j ∈ junk, Concrete.decode j = none) :
    Concrete.verifyBytes k m (ds ++ junk) tr = Concrete.verifyBytes k m ds tr ∧
    Concrete.verifyBytes k m (junk ++ ds) tr = Concrete.verifyBytes k m ds tr := by
  have hjunk : junk.filterMap Concrete.decode = [] := List.filterMap_eq_nil_iff.mpr hj
  unfold Concrete.verifyBytes
  simp [List.filterMap_append, hjunk]

/-! ### C08 with wire hops: a finalised proof stays what it is through add / encode / clone / decode -/

/-- the operations of C08 plus the wire hop: `hop` = `Encode` then `Decode` of the bytes (`Clone`; or
handing the token to another holder), continuing with the decoded copy -/
inductive OpB
  | add (items : List (AddItem Bytes))
  | encode
  | hop

def stepB (m : Mac Bytes) : OpB → Mac Bytes
  | .add items => (add m items).1
  | .encode => encodeState m
  | .hop =>
    match (Concrete.encode m).2.bind Concrete.decode with
    | some c => c
    | none => (Concrete.encode m).1

/-- `final_stable_with_hops`: once a proof is finalised (encoded once), every later sequence of `Add`
calls, encodes, clones and decoded copies leaves the very same token: `Add` is refused on the object
and on every decoded copy, the bytes never change -/
theorem final_stable_with_hops (m : Mac Bytes) (h : m.nonce.proof = true) (hn : m.newProof = false)
    (hw : Wireable m) : ∀ ops : List OpB, ops.foldl stepB m = m
  | [] => rfl
  | op :: ops => by
    have hs : stepB m op = m := by
      cases op with
      | add items => exact C08.final_is_stable m h hn (.add items)
      | encode => exact C08.final_is_stable m h hn .encode
      | hop =>
        have hes : encodeState m = m := C08.final_is_stable m h hn .encode
        obtain ⟨h1, h2⟩ := wire_hop m hes hn hw
        simp only [stepB, h1, Option.bind_some, h2]
    rw [List.foldl_cons, hs]
    exact final_stable_with_hops m h hn hw ops

/-- … and every such later state, decoded copies included, refuses `Add` -/
theorem final_refuses_add_with_hops (m : Mac Bytes) (h : m.nonce.proof = true) (hn : m.newProof = false)
    (hw : Wireable m) (ops : List OpB) (items : List (AddItem Bytes)) :
    add (ops.foldl stepB m) items = (ops.foldl stepB m, some .finalizedProof) := by
  rw [final_stable_with_hops m h hn hw ops]
  have := C08.final_after_encode m items h
  have hes : encodeState m = m := C08.final_is_stable m h hn .encode
  rwa [hes] at this

/-! ### C02 for the concrete instance -/

/-- `attenuation_only_restricts` for the concrete model: whatever a token attenuated from a
legitimate token `m` (by ANY successful `Add` calls) is verified and cleared for, `m` is verified
and cleared for as well, with the same discharges (none bound to something newer than `m`) -/
theorem attenuation_only_restricts (k : Bytes) (m m' : Mac Bytes) (hL : Legit k m) (hA : Attenuated m m')
    (dms : List (Mac Bytes)) (tr : Bytes → List Bytes) (cs' : List (Cav Bytes)) (rs : List Access)
    (hb : ∀ d ∈ dms, ∀ id, Cav.bind id ∈ d.cavs → (offered k m).any (fun bid => hasPrefix bid id) = true)
    (hv : verify k m' dms tr = .ok cs') (hclear : validate cs' rs = []) :
    ∃ cs, verify k m dms tr = .ok cs ∧ cs.Sublist cs' ∧ validate cs rs = [] :=
  C02.attenuation_only_restricts k m m' hL hA dms tr cs' rs hb hv hclear

/-- `attenuation_monotone` concretely (no legitimacy needed: the parent carries its honest tail) -/
theorem attenuation_monotone (k : Bytes) (m m' : Mac Bytes) (ys : List (Cav Bytes))
    (dms : List (Mac Bytes)) (tr : Bytes → List Bytes) (cs' : List (Cav Bytes)) (rs : List Access)
    (hn : m'.nonce = m.nonce) (hc : m'.cavs = m.cavs ++ ys) (hp : m.nonce.proof = false)
    (hm : chain (macNonce k m.nonce) m.cavs = some m.tail)
    (hb : ∀ d ∈ dms, ∀ id, Cav.bind id ∈ d.cavs → (offered k m).any (fun bid => hasPrefix bid id) = true)
    (hv : verify k m' dms tr = .ok cs') (hclear : validate cs' rs = []) :
    ∃ cs, verify k m dms tr = .ok cs ∧ cs.Sublist cs' ∧ validate cs rs = [] :=
  C02.attenuation_monotone k m m' ys dms tr cs' rs hn hc hp hm hb hv hclear

/-! ### non-vacuity -/

section examples

/-- a 32-byte third-party key, a 32-byte discharge key, two 12-byte nonces, a small caveat set with a
wrapper and a resource set -/
def ka : Bytes := List.replicate 32 0x11
def rn : Bytes := List.replicate 32 0x22
def tn : Bytes := List.replicate 12 0x33
def vn : Bytes := List.replicate 12 0x44
def tcs : List (Cav Bytes) :=
  [.isUser 3, .ifPresent false (.cons (.apps [(1, 1), (7, 31)]) .nil) 1, .volumes [([0x61], 3), ([0x62], 2)]]

example : ka.length = 32 ∧ rn.length = 32 ∧ tn.length = 12 ∧ vn.length = 12 := by decide
example : rn.length < 2 ^ 32 := by decide
example : WFCavs tcs := by decide
example : 1 + encDepth tcs ≤ defaultFuel := by decide
example : TicketBodyOK rn tcs := by decide
-- the domain predicates of the instance are these by definition
example : LawfulCrypto.okKey ka ∧ LawfulCrypto.okNonce tn ∧ LawfulCrypto.okTicketBody rn tcs :=
  ⟨(okKey_iff ka).mpr (by decide), (okNonce_iff tn).mpr (by decide), (okTicketBody_iff rn tcs).mpr (by decide)⟩

-- the hypotheses of the ticket theorems are met (the conclusions are about real ChaCha20-Poly1305
-- output, which the kernel is not asked to evaluate here; the driver runs it against Go)
example := discharge_from_ticket_is_legit ka [9] tcs rn tn vn [7, 7] true []
  (by decide) (by decide) (by decide) (by decide) (by decide)
example := ticket_roundtrip ka [9] tcs rn tn vn [7, 7] false (by decide) (by decide) (by decide) (by decide) (by decide)
example := trusted_not_refused ka [] tn rn tcs (by decide) (by decide) (by decide) (by decide) (by decide)
example := seal_roundtrip ka tn [1, 2, 3] (by decide) (by decide)
example := sealTicket_nonce_injective ka tn tn rn tcs (by decide) (by decide) rfl
example := verifierKey_roundtrip ka vn rn (by decide) (by decide)

/-- a legitimate concrete history: mint under a 5-byte root key, add an ordinary caveat and a fresh
third-party caveat (any ticket, any discharge key, 12-byte VerifierKey nonce), for every ticket -/
theorem sample_legit (ticket : Bytes) (items : List (AddItem Bytes))
    (hi : items = [.plain (.isUser 7), .new3p [9] ticket rn vn])
    (hok : (add (mint [1, 2, 3, 4, 5] [1] [] [2] false) items).2 = none) :
    Legit [1, 2, 3, 4, 5] (add (mint [1, 2, 3, 4, 5] [1] [] [2] false) items).1 := by
  refine .added _ _ (.minted [1] [] [2] 1) ?_ hok
  subst hi
  intro it hit
  simp only [List.mem_cons, List.not_mem_nil, or_false] at hit
  rcases hit with rfl | rfl
  · exact .plain _ rfl
  · exact .new3p _ _ _ _ ((okNonce_iff vn).mpr (by decide))

/-- … and `Add` does succeed on it (`hok` above is met): no caveat is an attestation, all are encodable -/
theorem sample_add_ok (ticket : Bytes) :
    (add (mint [1, 2, 3, 4, 5] [1] [] [2] false) [.plain (.isUser 7), .new3p [9] ticket rn vn]).2 = none := by
  have e10 : Msgpack.enc (Msgpack.V.ofUint 10) = [10] := by decide
  have e11 : Msgpack.enc (Msgpack.V.ofUint 11) = [11] := by decide
  simp [e10, e11, add, mint, allEncodable, AddItem.asCav, Crypto.macCav, encodable, dedup, Crypto.sameEnc, addLoop,
    Cav.isAttestation, Cav.wrapsAttestation, locs3P, getCaveats, Crypto.macNonce,
    encCav, encBody, Cav.typ]

example (ticket : Bytes) := legit_tail_is_key [1, 2, 3, 4, 5] _ (sample_legit ticket _ rfl (sample_add_ok ticket))
example (ticket : Bytes) := legit_chain [1, 2, 3, 4, 5] _ (sample_legit ticket _ rfl (sample_add_ok ticket))
example := mint_verifies [1, 2, 3, 4, 5] [1] [] [2] [] (fun _ => [])
example := legit_firstParty_verifies [1, 2, 3, 4, 5] _ (.minted [1] [] [2] 1) [] (fun _ => []) rfl

/-! A byte-level history with a RESOURCE-SET caveat (two entries: the kind for which equal encodings do
not mean equal association lists, `C02.sameEnc_not_injective_on_raw_lists`): mint, `Add`, hand the
token on as bytes, verify from bytes; the added caveat is enforced. -/

def sm0 : Mac Bytes := mint [1, 2, 3, 4, 5] [1] [] [2] false
def sc : Cav Bytes := .apps [(1, 1), (2, 3)]

example : WFCav sc = true := by decide

/-- non-vacuity of `added_caveat_is_enforced_bytes`, `wire_hop`, `legit_hop`, `legit_verifies_bytes`,
`verifyBytes_ignores_malformed`: all hypotheses hold for this history, and the conclusions are drawn -/
theorem sample_bytes_history :
    ∃ m', add sm0 [.plain sc] = (m', none) ∧ Legit [1, 2, 3, 4, 5] m' ∧ Wireable m' ∧
      verify [1, 2, 3, 4, 5] m' [] (fun _ => []) = .ok [sc] ∧
      Concrete.decode (wireBytes m') = some m' ∧
      Concrete.verifyBytes [1, 2, 3, 4, 5] m' ([] ++ [[0xc1]]) (fun _ => []) = .ok [sc] ∧
      (∀ r, prohibits sc r ≠ [] → ∀ rs, r ∈ rs → validate [sc] rs ≠ []) := by
  obtain ⟨t, ht, hadd⟩ := add_fresh_plain sm0 sc (by rfl)
    (by simp [allEncodable, sm0, mint, AddItem.asCav, Crypto.macCav, sc, encodable]) (by rfl) (by rfl) (by rfl)
  have hL : Legit [1, 2, 3, 4, 5] { sm0 with cavs := sm0.cavs ++ [sc], tail := t } := by
    have := Legit.added (k := ([1, 2, 3, 4, 5] : Bytes)) sm0 [.plain sc] (.minted [1] [] [2] 1) (by
      intro it hit; simp only [List.mem_singleton] at hit; subst hit; exact .plain _ rfl) (by rw [hadd])
    rw [hadd] at this
    exact this
  have htl : t.length = 32 := macCav_length _ _ _ ht
  have hW : Wireable { sm0 with cavs := sm0.cavs ++ [sc], tail := t } := by
    refine ⟨⟨?_, ?_, ?_, ?_⟩, ?_, ?_⟩
    · show WFNonce (Concrete.toNonce sm0.nonce) = true
      decide
    · show sm0.loc.length < 2 ^ 32
      decide
    · show WFCavs (sm0.cavs ++ [sc])
      exact ⟨by decide, by decide⟩
    · show t.length < 2 ^ 32
      omega
    · show 1 + max 1 (encDepth (sm0.cavs ++ [sc])) ≤ defaultFuel
      decide
    · show (sm0.cavs ++ [sc]).all encodable = true
      decide
  have h3 : secrets [1, 2, 3, 4, 5] { sm0 with cavs := sm0.cavs ++ [sc], tail := t } = [] := by
    simp only [secrets, sm0, mint, List.nil_append, tpKeys, tpKeysStep, tpFields?, sc]
    split <;> rfl
  have hv' : verify [1, 2, 3, 4, 5] { sm0 with cavs := sm0.cavs ++ [sc], tail := t } [] (fun _ => []) = .ok [sc] :=
    legit_firstParty_verifies [1, 2, 3, 4, 5] _ hL [] (fun _ => []) h3
  have inv := Lemmas.legit_inv _ _ hL
  have hop := wire_hop _ (encodeState_nonproof _ inv.notProof) inv.notNew hW
  have hvb : Concrete.verifyBytes [1, 2, 3, 4, 5] { sm0 with cavs := sm0.cavs ++ [sc], tail := t } ([] ++ [[0xc1]])
      (fun _ => []) = .ok [sc] := legit_verifies_bytes [1, 2, 3, 4, 5] _ hL [] (fun _ => []) []
    (by rw [h3]; exact .nil) (by intro d hd; cases hd) [[0xc1]] (by
      intro j hj; simp only [List.mem_singleton] at hj; subst hj; decide)
  refine ⟨_, hadd, hL, hW, hv', hop.2, hvb, ?_⟩
  · exact (C02.added_caveat_is_enforced_bytes [1, 2, 3, 4, 5] sm0 _ sc [] (fun _ => []) [sc] hadd rfl rfl
      (by intro x hx; cases hx) (by decide) hv').2 rfl

example := (verifyBytes_ignores_malformed [1, 2, 3, 4, 5] sm0 [] [[0xc1]] (fun _ => [])
  (by intro j hj; simp only [List.mem_singleton] at hj; subst hj; decide))
example := legit_hop [1, 2, 3, 4, 5] sm0 (.minted [1] [] [2] 1)
  ⟨⟨by decide, by decide, ⟨by decide, by decide⟩, by
      show (Crypto.macNonce ([1, 2, 3, 4, 5] : Bytes) _).length < 2 ^ 32
      rw [macNonce_length]; decide⟩, by decide, by decide⟩
example := legit_attenuate_from_bytes [1, 2, 3, 4, 5] sm0 (.minted [1] [] [2] 1)
  ⟨⟨by decide, by decide, ⟨by decide, by decide⟩, by
      show (Crypto.macNonce ([1, 2, 3, 4, 5] : Bytes) _).length < 2 ^ 32
      rw [macNonce_length]; decide⟩, by decide, by decide⟩ [.plain sc] (by
    intro it hit; simp only [List.mem_singleton] at hit; subst hit; exact .plain _ rfl)

-- `add_succeeds` / `legit_add_succeeds` / `firstParty_history_verifies` at byte level: a resource set, a
-- conditional and a fresh third-party caveat on the sample token; a two-call history
example := add_succeeds sm0 [.plain sc, .new3p [9] [1, 2, 3] rn vn] (by rfl) (by intro c hc; cases hc)
  (by intro c hc; simp only [List.mem_cons, List.not_mem_nil, or_false, AddItem.plain.injEq, reduceCtorEq] at hc
      subst hc; decide)
  (by intro c hc; simp only [List.mem_cons, List.not_mem_nil, or_false, AddItem.plain.injEq, reduceCtorEq] at hc
      subst hc; exact ⟨rfl, rfl⟩)
  (by decide) (by intro l hl; simp [sm0, mint, locs3P, getCaveats])
example := legit_add_succeeds [1, 2, 3, 4, 5] sm0 (.minted [1] [] [2] 1) [.plain sc, .new3p [9] [1, 2, 3] rn vn]
  (by
    intro it hit
    simp only [List.mem_cons, List.not_mem_nil, or_false] at hit
    rcases hit with rfl | rfl
    · exact .plain _ rfl
    · exact .new3p _ _ _ _ ((okNonce_iff vn).mpr (by decide)))
  (by intro c hc; simp only [List.mem_cons, List.not_mem_nil, or_false, AddItem.plain.injEq, reduceCtorEq] at hc
      subst hc; decide)
  (by decide) (by intro l hl; simp [sm0, mint, locs3P, getCaveats])
example := firstParty_history_verifies [1, 2, 3, 4, 5] [1] [] [2] 0
  [[sc, .ifPresent false (.cons (.volumes [([0x61], 3)]) .nil) 1], [.validityWindow 0 9223372036854775807, sc]]
  (by intro cs hcs c hc; exact ⟨by revert c; revert cs; decide, by revert c; revert cs; decide⟩) [] (fun _ => [])

example := history_is_legit [1, 2, 3, 4, 5] [1] [] [2] 1
  [[.plain sc, .new3p [9] [1, 2, 3] rn vn], [.new3p [8] [4, 5] rn vn, .plain (.action 1)]]
  (by
    intro its hits it hit
    simp only [List.mem_cons, List.not_mem_nil, or_false] at hits
    rcases hits with rfl | rfl <;> simp only [List.mem_cons, List.not_mem_nil, or_false] at hit <;>
      rcases hit with rfl | rfl
    · exact ⟨.plain _ rfl, rfl⟩
    · exact ⟨.new3p _ _ _ _ ((okNonce_iff vn).mpr (by decide)), trivial⟩
    · exact ⟨.new3p _ _ _ _ ((okNonce_iff vn).mpr (by decide)), trivial⟩
    · exact ⟨.plain _ rfl, rfl⟩)
  (by
    intro its hits c hc
    simp only [List.mem_cons, List.not_mem_nil, or_false] at hits
    rcases hits with rfl | rfl <;>
      simp only [List.mem_cons, List.not_mem_nil, or_false, AddItem.plain.injEq, reduceCtorEq, false_or, or_false] at hc <;>
      subst hc <;> decide)
  (by decide)

/-- a finalised proof at byte level: a discharge minted under `rn` and encoded once -/
def sp : Mac Bytes := encodeState (mint rn [7, 7, 7] [9] [2] true)
theorem sp_wireable : Wireable sp := by
  refine ⟨⟨by decide, by decide, ⟨by decide, by decide⟩, ?_⟩, by decide, by decide⟩
  have e : (Concrete.toWire sp).tail = Crypto.finalize (mint rn [7, 7, 7] [9] [2] true).tail := rfl
  rw [e, finalize_length]; decide
example := final_stable_with_hops sp rfl rfl sp_wireable [.hop, .add [.plain (.isUser 1)], .encode, .hop]
example := final_refuses_add_with_hops sp rfl rfl sp_wireable [.hop, .encode] [.plain (.isUser 1)]
example := (wire_hop sp (C08.final_is_stable sp rfl rfl .encode) rfl sp_wireable).2

end examples

end Macaroon.Props.Concrete

#print axioms Macaroon.Props.Concrete.aead_roundtrip
#print axioms Macaroon.Props.Concrete.chacha20_involutive
#print axioms Macaroon.Props.Concrete.seal_roundtrip
#print axioms Macaroon.Props.Concrete.seal_needs_sizes
#print axioms Macaroon.Props.Concrete.primitive_sizes
#print axioms Macaroon.Props.Concrete.chain_values_are_keys
#print axioms Macaroon.Props.Concrete.ticket_plaintext_roundtrip
#print axioms Macaroon.Props.Concrete.verifierKey_roundtrip
#print axioms Macaroon.Props.Concrete.sealed_ticket_opens
#print axioms Macaroon.Props.Concrete.legitItem_iff
#print axioms Macaroon.Props.Concrete.legit_tail_is_key
#print axioms Macaroon.Props.Concrete.mint_verifies
#print axioms Macaroon.Props.Concrete.legit_chain
#print axioms Macaroon.Props.Concrete.legit_secrets
#print axioms Macaroon.Props.Concrete.legit_verifies
#print axioms Macaroon.Props.Concrete.legit_firstParty_verifies
#print axioms Macaroon.Props.Concrete.discharge_from_ticket_is_legit
#print axioms Macaroon.Props.Concrete.ticket_roundtrip
#print axioms Macaroon.Props.Concrete.legit_discharge_verifies
#print axioms Macaroon.Props.Concrete.trusted_not_refused
#print axioms Macaroon.Props.Concrete.attenuation_only_restricts
#print axioms Macaroon.Props.Concrete.attenuation_monotone
#print axioms Macaroon.Props.Concrete.box_nonce_injective
#print axioms Macaroon.Props.Concrete.sealTicket_nonce_injective
#print axioms Macaroon.Props.Concrete.tpEncodable_bytes
#print axioms Macaroon.Props.Concrete.macCav_isSome_iff
#print axioms Macaroon.Props.Concrete.add_succeeds
#print axioms Macaroon.Props.Concrete.legit_add_succeeds
#print axioms Macaroon.Props.Concrete.legit_add_then_verifies
#print axioms Macaroon.Props.Concrete.firstParty_history_verifies
#print axioms Macaroon.Props.Concrete.history_verifies
#print axioms Macaroon.Props.Concrete.history_is_legit
#print axioms Macaroon.Props.Concrete.wire_hop
#print axioms Macaroon.Props.Concrete.legit_hop
#print axioms Macaroon.Props.Concrete.legit_attenuate_from_bytes
#print axioms Macaroon.Props.Concrete.filterMap_decode_wire
#print axioms Macaroon.Props.Concrete.legit_verifies_bytes
#print axioms Macaroon.Props.Concrete.final_stable_with_hops
#print axioms Macaroon.Props.Concrete.final_refuses_add_with_hops
#print axioms Macaroon.Props.Concrete.verifyBytes_ignores_malformed
#print axioms Macaroon.Props.Concrete.sample_bytes_history
#print axioms Macaroon.Props.Concrete.sp_wireable
#print axioms Macaroon.Props.Concrete.sample_legit
#print axioms Macaroon.Props.Concrete.sample_add_ok
