/-
C09 — resource-set, conditional and action caveats mean what they say.

Property theorems only.  Model: `ResSet.prohibits`, `prohibits` (Caveat/Prohibits.lean), tied to
resset.ResourceSet.Prohibits / IfPresent.Prohibits / Action.Prohibits by the `resset` family.
-/
import Macaroon.Lemmas.Monotone

namespace Macaroon.Props.C09
open Macaroon Macaroon.Lemmas
variable {B : Type}

/-- A resource-set caveat permits `act` on resource `id` exactly when the set does not mix the
wildcard (zero id) with other entries, some entry covers `id` (it is the zero id, or it matches
`id`: equal, or — for prefix ids — a prefix of it), and the requested bits lie within the mask of
every covering entry (i.e. within the intersection). -/
theorem resset_permits_iff {K} (z : K → Bool) (m : K → K → Bool) (rs : ResSet K) (id : K) (act : Action) :
    ResSet.prohibits z m rs (some id) act = [] ↔
      ResSet.mixedWildcard z rs = false ∧ (∃ e ∈ rs, (z e.1 || m e.1 id) = true) ∧
      ∀ e ∈ rs, (z e.1 || m e.1 id) = true → act.subset e.2 = true :=
  Lemmas.resset_permits_iff z m rs id act

/-- what "matches" means for the three id kinds -/
theorem match_plain {K} [BEq K] [LawfulBEq K] (e id : K) : ResSet.matchEq e id = true ↔ e = id := by
  simp [ResSet.matchEq]
theorem match_prefix (e id : Bytes) : ResSet.matchPrefix e id = true ↔ e <+: id := by
  simp only [ResSet.matchPrefix, Bool.or_eq_true, beq_iff_eq, List.isPrefixOf_iff_prefix]
  constructor
  · rintro (rfl | h)
    · exact List.prefix_refl _
    · exact h
  · intro h; exact Or.inr h

/-- under a well-formed set the wildcard entry is alone: "covered by a lone wildcard" -/
theorem wildcard_is_lone {K} (z : K → Bool) (rs : ResSet K) (e : K × Action)
    (hw : ResSet.mixedWildcard z rs = false) (he : e ∈ rs) (hz : z e.1 = true) : rs = [e] :=
  Lemmas.wildcard_is_lone z rs e hw he hz

/-- an unspecified resource is reported as unspecified -/
theorem resset_unspecified {K} (z : K → Bool) (m : K → K → Bool) (rs : ResSet K) (act : Action)
    (hw : ResSet.mixedWildcard z rs = false) : ResSet.prohibits z m rs none act = [.resUnspecified] := by
  simp [ResSet.prohibits, hw]

/-- a set mixing the wildcard with other entries permits nothing (also when the resource is absent) -/
theorem resset_mixed_denies {K} (z : K → Bool) (m : K → K → Bool) (rs : ResSet K) (id : Option K) (act : Action)
    (hw : ResSet.mixedWildcard z rs = true) : ResSet.prohibits z m rs id act = [.badCaveat] := by
  simp [ResSet.prohibits, hw]

/-- error classes of a denial -/
theorem resset_error_classes {K} (z : K → Bool) (m : K → K → Bool) (rs : ResSet K) (id : K) (act : Action)
    (hw : ResSet.mixedWildcard z rs = false) :
    ((¬ ∃ e ∈ rs, (z e.1 || m e.1 id) = true) → ResSet.prohibits z m rs (some id) act = [.forResource]) ∧
    ((∃ e ∈ rs, (z e.1 || m e.1 id) = true) → ResSet.prohibits z m rs (some id) act ≠ [] →
        ResSet.prohibits z m rs (some id) act = [.forAction]) :=
  Lemmas.resset_error_classes z m rs id act hw

/-- an action caveat permits exactly the sub-masks -/
theorem action_iff (mask : Action) (a : Access) :
    prohibits (.action mask : Cav B) a = [] ↔ ∃ act, a.action = some act ∧ act.subset mask = true := by
  unfold prohibits
  cases h : a.action with
  | none => simp
  | some act => by_cases hs : act.subset mask = true <;> simp [hs]

/-- A conditional applies all its inner caveats when at least one of them concerns a resource the
request specifies (does not answer "unspecified"), and otherwise requires the action to lie within
its else-mask.  `applicable` is that sub-list. -/
theorem ifPresent_semantics (ifs : CavList B) (els : Action) (a : Access) (act : Action)
    (ha : a.action = some act) :
    prohibits (.ifPresent false ifs els) a = [] ↔
      (applicable ifs.toList a ≠ [] ∧ ∀ c ∈ applicable ifs.toList a, prohibits c a = []) ∨
      (applicable ifs.toList a = [] ∧ act.subset els = true) :=
  Lemmas.ifPresent_semantics ifs els a act ha

/-- a request without an action capability is refused; a conditional whose inner set is a nil
pointer is a bad caveat and denies -/
theorem ifPresent_refusals (n : Bool) (ifs : CavList B) (els : Action) (a : Access) :
    (a.action = none → prohibits (.ifPresent n ifs els) a = [.invalidAccess]) ∧
    (n = true → prohibits (.ifPresent n ifs els) a ≠ []) := by
  constructor
  · intro h; unfold prohibits; simp [h]
  · intro h; unfold prohibits; cases a.action <;> simp [h]

/-- the answer of a conditional is never itself "unspecified" (needed for nesting) -/
theorem ifPresent_never_unspecified (n : Bool) (ifs : CavList B) (els : Action) (a : Access) :
    (prohibits (.ifPresent n ifs els) a).is .resUnspecified = false :=
  Lemmas.ifPresent_never_unspecified n ifs els a

/-- Permission is monotone in the action: for every caveat of the registered universe, nested
conditionals to any depth, if an action is permitted then so is every subset of it (all other
request data equal). -/
theorem permit_antitone_in_action (c : Cav B) (a : Access) (x y : Action)
    (hsub : y.subset x = true) (h : prohibits c (withAction a x) = []) :
    prohibits c (withAction a y) = [] :=
  ((Lemmas.cav_action_mono c) a x y).2 hsub h

/-- … and hence for whole caveat sets -/
theorem validate_antitone_in_action (cs : List (Cav B)) (a : Access) (x y : Action)
    (hsub : y.subset x = true) (h : validateAccess cs (withAction a x) = []) :
    validateAccess cs (withAction a y) = [] := by
  unfold validateAccess at *
  simp only [List.flatMap_eq_nil_iff] at *
  intro c hc
  have := h c hc
  by_cases hat : c.isAttestation = true
  · simp [hat]
  · simp at hat; simp [hat] at this ⊢
    exact permit_antitone_in_action c a x y hsub this

/-! non-vacuity / sanity -/
example : ResSet.prohibitsPrefix [([97], 3), ([97, 98], 1)] (some ([97, 98, 99])) 1 = [] := by decide
example : ResSet.prohibitsPrefix [([97], 3), ([97, 98], 1)] (some ([97, 98, 99])) 2 = [.forAction] := by decide
example : ResSet.prohibitsStr [([], 3), ([97, 98], 1)] (some ([97, 98])) 0 = [.badCaveat] := by decide
example : prohibits (.ifPresent false (.cons (.apps [(1, 1)]) .nil) 2 : Cav Bytes)
    { Access.bare 0 0 with action := some 2, app := some none } = [] := by decide

end Macaroon.Props.C09

#print axioms Macaroon.Props.C09.resset_permits_iff
#print axioms Macaroon.Props.C09.match_plain
#print axioms Macaroon.Props.C09.match_prefix
#print axioms Macaroon.Props.C09.wildcard_is_lone
#print axioms Macaroon.Props.C09.resset_unspecified
#print axioms Macaroon.Props.C09.resset_mixed_denies
#print axioms Macaroon.Props.C09.resset_error_classes
#print axioms Macaroon.Props.C09.action_iff
#print axioms Macaroon.Props.C09.ifPresent_semantics
#print axioms Macaroon.Props.C09.ifPresent_refusals
#print axioms Macaroon.Props.C09.ifPresent_never_unspecified
#print axioms Macaroon.Props.C09.permit_antitone_in_action
#print axioms Macaroon.Props.C09.validate_antitone_in_action
