/-
C09 — resource-set, conditional and action caveats mean what they say.

Property theorems only.  Model: `ResSet.prohibits`, `prohibits` (Caveat/Prohibits.lean), tied to
resset.ResourceSet.Prohibits / IfPresent.Prohibits / Action.Prohibits by the `resset` family.
-/
import Macaroon.Lemmas.Monotone

namespace Macaroon.Props.C09
open Macaroon Macaroon.Lemmas
variable {B : Type}

/-- A resource-set caveat permits `act` on resource `id` exactly when the set does not mix the
wildcard (zero id) with other entries, some entry covers `id` (it is the zero id, or it matches
`id`: equal, or — for prefix ids — a prefix of it), and the requested bits lie within the mask of
every covering entry (i.e. within the intersection). -/
theorem resset_permits_iff {K} (z : K → Bool) (m : K → K → Bool) (rs : ResSet K) (id : K) (act : Action) :
    ResSet.prohibits z m rs (some id) act = [] ↔
      ResSet.mixedWildcard z rs = false ∧ (∃ e ∈ rs, (z e.1 || m e.1 id) = true) ∧
      ∀ e ∈ rs, (z e.1 || m e.1 id) = true → act.subset e.2 = true :=
  Lemmas.resset_permits_iff z m rs id act

/-- what "matches" means for the three id kinds -/
theorem match_plain {K} [BEq K] [LawfulBEq K] (e id : K) : ResSet.matchEq e id = true ↔ e = id := by
  simp [ResSet.matchEq]
theorem match_prefix (e id : Bytes) : ResSet.matchPrefix e id = true ↔ e <+: id := by
  simp only [ResSet.matchPrefix, Bool.or_eq_true, beq_iff_eq, List.isPrefixOf_iff_prefix]
  constructor
  · rintro (rfl | h)
    · exact List.prefix_refl _
    · exact h
  · intro h; exact Or.inr h

/-- under a well-formed set the wildcard entry is alone: "covered by a lone wildcard" -/
theorem wildcard_is_lone {K} (z : K → Bool) (rs : ResSet K) (e : K × Action)
    (hw : ResSet.mixedWildcard z rs = false) (he : e ∈ rs) (hz : z e.1 = true) : rs = [e] :=
  Lemmas.wildcard_is_lone z rs e hw he hz

/-- an unspecified resource is reported as unspecified -/
theorem resset_unspecified {K} (z : K → Bool) (m : K → K → Bool) (rs : ResSet K) (act : Action)
    (hw : ResSet.mixedWildcard z rs = false) : ResSet.prohibits z m rs none act = [.resUnspecified] := by
  simp [ResSet.prohibits, hw]

/-- a set mixing the wildcard with other entries permits nothing (also when the resource is absent) -/
theorem resset_mixed_denies {K} (z : K → Bool) (m : K → K → Bool) (rs : ResSet K) (id : Option K) (act : Action)
    (hw : ResSet.mixedWildcard z rs = true) : ResSet.prohibits z m rs id act = [.badCaveat] := by
  simp [ResSet.prohibits, hw]

/-- error classes of a denial -/
theorem resset_error_classes {K} (z : K → Bool) (m : K → K → Bool) (rs : ResSet K) (id : K) (act : Action)
    (hw : ResSet.mixedWildcard z rs = false) :
    ((¬ ∃ e ∈ rs, (z e.1 || m e.1 id) = true) → ResSet.prohibits z m rs (some id) act = [.forResource]) ∧
    ((∃ e ∈ rs, (z e.1 || m e.1 id) = true) → ResSet.prohibits z m rs (some id) act ≠ [] →
        ResSet.prohibits z m rs (some id) act = [.forAction]) :=
  Lemmas.resset_error_classes z m rs id act hw

/-- an action caveat permits exactly the sub-masks -/
theorem action_iff (mask : Action) (a : Access) :
    prohibits (.action mask : Cav B) a = [] ↔ ∃ act, a.action = some act ∧ act.subset mask = true := by
  unfold prohibits
  cases h : a.action with
  | none => simp
  | some act => by_cases hs : act.subset mask = true <;> simp [hs]

/-- A conditional applies all its inner caveats when at least one of them concerns a resource the
request specifies (does not answer "unspecified"), and otherwise requires the action to lie within
its else-mask.  `applicable` is that sub-list. -/
theorem ifPresent_semantics (ifs : CavList B) (els : Action) (a : Access) (act : Action)
    (ha : a.action = some act) :
    prohibits (.ifPresent false ifs els) a = [] ↔
      (applicable ifs.toList a ≠ [] ∧ ∀ c ∈ applicable ifs.toList a, prohibits c a = []) ∨
      (applicable ifs.toList a = [] ∧ act.subset els = true) :=
  Lemmas.ifPresent_semantics ifs els a act ha

/-- a request without an action capability is refused; a conditional whose inner set is a nil
pointer is a bad caveat and denies -/
theorem ifPresent_refusals (n : Bool) (ifs : CavList B) (els : Action) (a : Access) :
    (a.action = none → prohibits (.ifPresent n ifs els) a = [.invalidAccess]) ∧
    (n = true → prohibits (.ifPresent n ifs els) a ≠ []) := by
  constructor
  · intro h; unfold prohibits; simp [h]
  · intro h; unfold prohibits; cases a.action <;> simp [h]

/-- the answer of a conditional is never itself "unspecified" (needed for nesting) -/
theorem ifPresent_never_unspecified (n : Bool) (ifs : CavList B) (els : Action) (a : Access) :
    (prohibits (.ifPresent n ifs els) a).is .resUnspecified = false :=
  Lemmas.ifPresent_never_unspecified n ifs els a

/-! ### which caveats can answer "unspecified", and when -/

/-- the request could name the resource (it implements the getter) but does not (the getter returns nil) -/
def absent {K} : Option (Option K) → Bool
  | some none => true
  | _ => false

/-- The resource a caveat kind is ABOUT is one the request could name but does not: the request exposes
the getter (and the action, for the kinds read through `resset.Access`) and the getter returns nil — and
the caveat is a usable resource set (a set mixing the wildcard with other ids is a bad caveat whatever
the request says).  Every other kind — action masks, validity windows, conditionals, roles, source
restrictions, identity confinements, third-party / binding / unknown caveats — is about no resource. -/
def aboutAbsentResource : Cav B → Access → Bool
  | .organization .., a => a.action.isSome && absent a.org
  | .apps rs, a => a.action.isSome && absent a.app && !ResSet.mixedWildcard (fun k => k == 0) rs
  | .volumes rs, a => a.action.isSome && absent a.volume && !ResSet.mixedWildcard (fun k => k.isEmpty) rs
  | .machines rs, a => a.action.isSome && absent a.machine && !ResSet.mixedWildcard (fun k => k.isEmpty) rs
  | .machineFeatureSet rs, a => a.action.isSome && absent a.machineFeature && !ResSet.mixedWildcard (fun k => k.isEmpty) rs
  | .featureSet rs, a => a.action.isSome && absent a.feature && !ResSet.mixedWildcard (fun k => k.isEmpty) rs
  | .appFeatureSet rs, a => a.action.isSome && absent a.appFeature && !ResSet.mixedWildcard (fun k => k.isEmpty) rs
  | .clusters rs, a => a.action.isSome && absent a.cluster && !ResSet.mixedWildcard (fun k => k.isEmpty) rs
  | .storageObjects rs, a => a.action.isSome && absent a.storageObject && !ResSet.mixedWildcard (fun k => k.isEmpty) rs
  | .mutations .., a => absent a.mutation
  | .commands .., a => absent a.command
  | _, _ => false

theorem resset_unspecified_iff {K} (z : K → Bool) (m : K → K → Bool) (rs : ResSet K) (id : Option K) (act : Action) :
    (ResSet.prohibits z m rs id act).is .resUnspecified = (id.isNone && !ResSet.mixedWildcard z rs) := by
  unfold ResSet.prohibits
  cases hm : ResSet.mixedWildcard z rs
  · cases id with
    | none => rfl
    | some id =>
      simp only [Bool.false_eq_true, ↓reduceIte, Option.isNone_some, Bool.false_and]
      split
      · rfl
      · split <;> rfl
  · cases id <;> rfl

theorem viaGetter_unspecified_iff {K} (g : Option (Option K)) (action : Option Action)
    (z : K → Bool) (m : K → K → Bool) (rs : ResSet K) :
    (viaGetter g action (ResSet.prohibits z m rs)).is .resUnspecified =
      (action.isSome && absent g && !ResSet.mixedWildcard z rs) := by
  unfold viaGetter
  cases g with
  | none => cases action <;> rfl
  | some o =>
    cases action with
    | none => rfl
    | some act =>
      simp only [resset_unspecified_iff, Option.isSome_some, Bool.true_and]
      cases o <;> rfl

/-- `unspecified_iff`: a caveat answers "resource unspecified" exactly when the resource it is about
is one the request leaves out (`aboutAbsentResource`).  This is what "concerns a resource the request
specifies" means in `ifPresent_semantics`: the `applicable` inner caveats are those for which
`aboutAbsentResource` is false. -/
theorem unspecified_iff (c : Cav B) (a : Access) :
    (prohibits c a).is .resUnspecified = aboutAbsentResource c a := by
  cases c
  case ifPresent n ifs els => rw [ifPresent_never_unspecified]; rfl
  case organization id mask =>
    unfold prohibits; simp only [aboutAbsentResource]
    cases a.org with
    | none => cases a.action <;> rfl
    | some o =>
      cases a.action with
      | none => rfl
      | some act =>
        cases o with
        | none => rfl
        | some oid =>
          simp only
          split
          · rfl
          · split <;> rfl
  case apps rs => unfold prohibits ResSet.prohibitsU64; simp only [aboutAbsentResource]; exact viaGetter_unspecified_iff _ _ _ _ _
  case volumes rs => unfold prohibits ResSet.prohibitsStr; simp only [aboutAbsentResource]; exact viaGetter_unspecified_iff _ _ _ _ _
  case machines rs => unfold prohibits ResSet.prohibitsStr; simp only [aboutAbsentResource]; exact viaGetter_unspecified_iff _ _ _ _ _
  case machineFeatureSet rs => unfold prohibits ResSet.prohibitsStr; simp only [aboutAbsentResource]; exact viaGetter_unspecified_iff _ _ _ _ _
  case featureSet rs => unfold prohibits ResSet.prohibitsStr; simp only [aboutAbsentResource]; exact viaGetter_unspecified_iff _ _ _ _ _
  case appFeatureSet rs => unfold prohibits ResSet.prohibitsStr; simp only [aboutAbsentResource]; exact viaGetter_unspecified_iff _ _ _ _ _
  case clusters rs => unfold prohibits ResSet.prohibitsStr; simp only [aboutAbsentResource]; exact viaGetter_unspecified_iff _ _ _ _ _
  case storageObjects rs => unfold prohibits ResSet.prohibitsPrefix; simp only [aboutAbsentResource]; exact viaGetter_unspecified_iff _ _ _ _ _
  case mutations ms =>
    unfold prohibits; simp only [aboutAbsentResource]
    cases a.mutation with
    | none => rfl
    | some o =>
      cases o with
      | none => rfl
      | some m => simp only; split <;> rfl
  case commands cs =>
    unfold prohibits; simp only [aboutAbsentResource]
    cases a.command with
    | none => rfl
    | some o =>
      cases o with
      | none => rfl
      | some m => simp only; split <;> rfl
  case flySrc o ap i =>
    unfold prohibits; simp only [aboutAbsentResource, firstErr]
    have hf : ∀ (w : Bytes) (g : Option (Option Bytes)), (flySrcField w g).is .resUnspecified = false := by
      intro w g; unfold flySrcField
      split
      · rfl
      · split
        · rfl
        · rfl
        · split <;> rfl
    split
    · split
      · split
        · rfl
        · exact hf _ _
      · exact hf _ _
    · exact hf _ _
  all_goals
    unfold prohibits
    simp only [aboutAbsentResource, allowedRolesProhibits, confineProhibits]
    repeat' (first | rfl | split)

/-- the inner caveats a conditional applies are those that are not about a resource the request leaves out -/
theorem applicable_eq (ifs : List (Cav B)) (a : Access) :
    applicable ifs a = ifs.filter (fun c => !aboutAbsentResource c a) := by
  unfold applicable
  apply List.filter_congr
  intro c _
  rw [unspecified_iff]

/-- `non_resource_inner_forces_if`: one inner caveat that is not about an absent resource — in
particular ANY action mask, validity window, nested conditional, role, source or confinement caveat,
and any third-party, binding or unknown caveat, whatever the request — makes the conditional take its
if-branch: the else-mask is not consulted, the result is that of the applicable inner caveats, and the
conditional permits only if that inner caveat does -/
theorem non_resource_inner_forces_if (ifs : CavList B) (els : Action) (a : Access) (act : Action)
    (ha : a.action = some act) (c : Cav B) (hc : c ∈ ifs.toList) (hn : aboutAbsentResource c a = false) :
    prohibits (.ifPresent false ifs els) a = (applicable ifs.toList a).flatMap (fun x => prohibits x a) ∧
    (prohibits (.ifPresent false ifs els) a = [] → prohibits c a = []) := by
  have hca : c ∈ applicable ifs.toList a := by
    rw [applicable_eq]; exact List.mem_filter.mpr ⟨hc, by simp [hn]⟩
  have hne : (applicable ifs.toList a).isEmpty = false := by
    cases h : applicable ifs.toList a with
    | nil => rw [h] at hca; cases hca
    | cons _ _ => rfl
  have e : prohibits (.ifPresent false ifs els) a = (applicable ifs.toList a).flatMap (fun x => prohibits x a) := by
    rw [prohibits_ifPresent]; simp [ha, hne]
  exact ⟨e, fun h => List.flatMap_eq_nil_iff.mp (e ▸ h) c hca⟩

/-- Permission is monotone in the action: for every caveat of the registered universe, nested
conditionals to any depth, if an action is permitted then so is every subset of it (all other
request data equal). -/
theorem permit_antitone_in_action (c : Cav B) (a : Access) (x y : Action)
    (hsub : y.subset x = true) (h : prohibits c (withAction a x) = []) :
    prohibits c (withAction a y) = [] :=
  ((Lemmas.cav_action_mono c) a x y).2 hsub h

/-- … and hence for whole caveat sets -/
theorem validate_antitone_in_action (cs : List (Cav B)) (a : Access) (x y : Action)
    (hsub : y.subset x = true) (h : validateAccess cs (withAction a x) = []) :
    validateAccess cs (withAction a y) = [] := by
  unfold validateAccess at *
  simp only [List.flatMap_eq_nil_iff] at *
  intro c hc
  have := h c hc
  by_cases hat : c.isAttestation = true
  · simp [hat]
  · simp at hat; simp [hat] at this ⊢
    exact permit_antitone_in_action c a x y hsub this

/-! non-vacuity / sanity -/
example : ResSet.prohibitsPrefix [([97], 3), ([97, 98], 1)] (some ([97, 98, 99])) 1 = [] := by decide
example : ResSet.prohibitsPrefix [([97], 3), ([97, 98], 1)] (some ([97, 98, 99])) 2 = [.forAction] := by decide
example : ResSet.prohibitsStr [([], 3), ([97, 98], 1)] (some ([97, 98])) 0 = [.badCaveat] := by decide
example : prohibits (.ifPresent false (.cons (.apps [(1, 1)]) .nil) 2 : Cav Bytes)
    { Access.bare 0 0 with action := some 2, app := some none } = [] := by decide

-- `unspecified_iff`, `applicable_eq`, `non_resource_inner_forces_if`: an action mask inside a conditional forces the
-- if-branch although the request names no app; the else-mask (all) is not consulted
def noAppRead : Access := { Access.bare 0 0 with action := some 1, app := some none }
example : aboutAbsentResource (.apps [(1, 1)] : Cav Bytes) noAppRead = true := by decide
example : aboutAbsentResource (.action 2 : Cav Bytes) noAppRead = false := by decide
example := unspecified_iff (.apps [(1, 1)] : Cav Bytes) noAppRead
example := non_resource_inner_forces_if (.cons (.apps [(1, 1)]) (.cons (.action 2 : Cav Bytes) .nil)) 31 noAppRead 1 rfl
  (.action 2) (by simp [CavList.toList]) (by decide)
example : prohibits (.ifPresent false (.cons (.apps [(1, 1)]) (.cons (.action 2 : Cav Bytes) .nil)) 31) noAppRead = [.forAction] := by
  decide
example := resset_permits_iff (fun k : Bytes => k.isEmpty) ResSet.matchPrefix [([97], 3), ([97, 98], 1)] [97, 98, 99] 1
example := wildcard_is_lone (fun k : UInt64 => k == 0) [(0, 3)] (0, 3) (by decide) (by simp) (by decide)
example := permit_antitone_in_action (.ifPresent false (.cons (.apps [(1, 3)]) .nil) 3 : Cav Bytes)
  { Access.bare 0 0 with app := some (some 1) } 3 1 (by decide) (by decide)

end Macaroon.Props.C09

#print axioms Macaroon.Props.C09.resset_permits_iff
#print axioms Macaroon.Props.C09.match_plain
#print axioms Macaroon.Props.C09.match_prefix
#print axioms Macaroon.Props.C09.wildcard_is_lone
#print axioms Macaroon.Props.C09.resset_unspecified
#print axioms Macaroon.Props.C09.resset_mixed_denies
#print axioms Macaroon.Props.C09.resset_error_classes
#print axioms Macaroon.Props.C09.action_iff
#print axioms Macaroon.Props.C09.ifPresent_semantics
#print axioms Macaroon.Props.C09.ifPresent_refusals
#print axioms Macaroon.Props.C09.ifPresent_never_unspecified
#print axioms Macaroon.Props.C09.permit_antitone_in_action
#print axioms Macaroon.Props.C09.validate_antitone_in_action
#print axioms Macaroon.Props.C09.resset_unspecified_iff
#print axioms Macaroon.Props.C09.viaGetter_unspecified_iff
#print axioms Macaroon.Props.C09.unspecified_iff
#print axioms Macaroon.Props.C09.applicable_eq
#print axioms Macaroon.Props.C09.non_resource_inner_forces_if
