/-
C04 — a third-party caveat is satisfied only by its own discharge.

Generic theorems (every `Crypto B`; the ones marked [lawful] for every `LawfulCrypto B`) about
`verifyWith`/`verify`, `firstDischarge`, `dischargeTicket`, `newCaveat3P` of Token/Macaroon.lean.
Symbolic corollaries (a discharge signed with another secret or tampered with is rejected when
`rn` is secret; a ticket under the wrong key or altered is refused: `ticket_wrong_key`,
`ticket_altered`; two sealings differ unless the AEAD nonces coincide: `seal_twice_differs_sym`) are
in Props/Symbolic.lean; the byte-level forms (`ticket_roundtrip`, `box_nonce_injective`,
`verifyBytes_ignores_malformed`) in Props/Concrete.lean.  Tie: families `discharge`, `legit`.
-/
import Macaroon.Lemmas.Token
import Macaroon.Crypto.Symbolic

namespace Macaroon.Props.C04
open Macaroon Macaroon.Crypto Macaroon.Lemmas
variable {B : Type} [Crypto B]

/-- `verify` characterised (`verify_char`): acceptance means — the token is not an unfinalised proof;
every caveat passes its test (third-party caveats: some presented discharge has the ticket as its
key-id and the VerifierKey opens under the tail BEFORE the caveat; bindings match a parent id;
attestations only in proofs, never inside wrappers); the MAC chain over ALL caveats (finalised for
proofs) equals the tail; and for each third-party caveat, in caveat order, the FIRST accepted
candidate among the discharges carrying its ticket contributes its kept caveats. -/
theorem verify_char (k : B) (m : Mac B) (dms : List (Mac B)) (tr : Bytes → List B) (cs : List (Cav B)) :
    verify k m dms tr = .ok cs ↔
      (m.nonce.proof && m.newProof) = false ∧
      walkOK m.nonce.proof (byTicket dms) [] (macNonce k m.nonce) m.cavs = true ∧
      ∃ t, chain (macNonce k m.nonce) m.cavs = some t ∧ ctEq (finIf m.nonce.proof t) m.tail = true ∧
        ∃ css, (pendOf (byTicket dms) (macNonce k m.nonce) m.cavs).mapM
                 (fun p => firstDischarge
                   (digest (macNonce k m.nonce) :: (tailsAfter (macNonce k m.nonce) m.cavs).map digest)
                   true tr p.key p.ds) = some css ∧
          cs = m.cavs.filter (kept true) ++ css.flatten :=
  verifyWith_ok_iff k m dms [] true tr cs

/-- among the candidates for one ticket the first one (presentation order) that is accepted decides;
failing, malformed-for-this-key or duplicate candidates in front of it do not matter -/
theorem first_accepted_discharge_decides (ids : List B) (ta : Bool) (tr : Bytes → List B) (key : B)
    (ds : List (Mac B)) (cs : List (Cav B)) :
    firstDischarge ids ta tr key ds = some cs ↔
      ∃ pre d post, ds = pre ++ d :: post ∧ (∀ x ∈ pre, ∀ xs, ¬ Accepts ids ta tr key x xs) ∧
        Accepts ids ta tr key d cs :=
  firstDischarge_some_iff ids ta tr key ds cs

/-- a token with a third-party caveat and no discharge carrying its ticket is rejected -/
theorem missing_discharge_rejected (k : B) (m : Mac B) (dms : List (Mac B)) (tr : Bytes → List B)
    (loc : Bytes) (vk ticket : B) (hc : Cav.tp loc vk ticket ∈ m.cavs)
    (hno : ∀ d ∈ dms, kidEq d.nonce.kid ticket = false) : ∀ cs, verify k m dms tr ≠ .ok cs := by
  intro cs hv
  obtain ⟨_, hok, _⟩ := (verify_char k m dms tr cs).mp hv
  have hb : byTicket dms ticket = none := by
    unfold byTicket
    have : (dms.filter fun d => kidEq d.nonce.kid ticket) = [] := by
      apply List.filter_eq_nil_iff.mpr
      intro d hd; simp [hno d hd]
    simp [this]
  -- the step test of that caveat fails
  have key : ∀ (t : B) (cs : List (Cav B)), Cav.tp loc vk ticket ∈ cs →
      walkOK m.nonce.proof (byTicket dms) [] t cs = false := by
    intro t cs
    induction cs generalizing t with
    | nil => simp
    | cons c cs ih =>
      intro hm
      simp only [List.mem_cons] at hm
      rcases hm with rfl | hm
      · simp [walkOK, stepOK, tpFields?, hb]
      · simp only [walkOK]
        cases macCav t c with
        | none => simp
        | some t' => simp [ih t' hm]
  rw [key _ _ hc] at hok; cases hok

/-- a discharge that itself demands a further discharge never satisfies anything: discharges are
verified with no discharges of their own -/
theorem nested_3p_never_discharged (key : B) (d : Mac B) (ids : List B) (ta : Bool)
    (loc : Bytes) (vk ticket : B) (hc : Cav.tp loc vk ticket ∈ d.cavs) :
    ∀ cs, verifyFlat key d ids ta ≠ .ok cs := by
  intro cs hv
  obtain ⟨_, hok, _⟩ := (verifyFlat_ok_iff key d ids ta cs).mp hv
  have keyl : ∀ (t : B) (cs : List (Cav B)), Cav.tp loc vk ticket ∈ cs →
      walkOK d.nonce.proof (fun _ => none) ids t cs = false := by
    intro t cs
    induction cs generalizing t with
    | nil => simp
    | cons c cs ih =>
      intro hm
      simp only [List.mem_cons] at hm
      rcases hm with rfl | hm
      · simp [walkOK, stepOK, tpFields?]
      · simp only [walkOK]
        cases macCav t c with
        | none => simp
        | some t' => simp [ih t' hm]
  rw [keyl _ _ hc] at hok; cases hok

/-- acceptance imposes the caveats of every accepted discharge: for each third-party caveat some
presented discharge with its ticket was accepted and all its returned caveats are in the result -/
theorem discharge_caveats_imposed (k : B) (m : Mac B) (dms : List (Mac B)) (tr : Bytes → List B)
    (cs : List (Cav B)) (hv : verify k m dms tr = .ok cs) :
    ∀ p ∈ pendOf (byTicket dms) (macNonce k m.nonce) m.cavs,
      ∃ d ∈ p.ds, ∃ dcs, Accepts (digest (macNonce k m.nonce) :: (tailsAfter (macNonce k m.nonce) m.cavs).map digest)
          true tr p.key d dcs ∧ ∀ c ∈ dcs, c ∈ cs := by
  obtain ⟨_, _, t, _, _, css, hm, rfl⟩ := (verify_char k m dms tr cs).mp hv
  intro p hp
  obtain ⟨r, hf, hsub⟩ := mapM_mem _ _ css hm p hp
  obtain ⟨pre, d, post, hds, _, hacc⟩ := (firstDischarge_some_iff _ _ _ _ _ _).mp hf
  exact ⟨d, by rw [hds]; simp, r, hacc, fun c hc => List.mem_append_right _ (hsub c hc)⟩

/-- every candidate that is tried carries the caveat's ticket as its key-id and was presented -/
theorem candidates_carry_the_ticket (k : B) (m : Mac B) (dms : List (Mac B)) (p : Pending B)
    (hp : p ∈ pendOf (byTicket dms) (macNonce k m.nonce) m.cavs) :
    ∃ loc vk ticket, Cav.tp loc vk ticket ∈ m.cavs ∧ ∀ d ∈ p.ds, d ∈ dms ∧ kidEq d.nonce.kid ticket = true := by
  obtain ⟨loc, vk, ticket, hm, hb⟩ := mem_pendOf dms _ _ p hp
  exact ⟨loc, vk, ticket, hm, (mem_byTicket dms ticket p.ds hb).2⟩

/-- discharges for other tickets, junk and duplicates of non-candidates presented alongside do not
change the outcome: only the candidates for the token's own tickets are looked at -/
theorem extra_discharges_irrelevant (k : B) (m : Mac B) (dms extra : List (Mac B)) (tr : Bytes → List B)
    (h : ∀ loc vk ticket, Cav.tp loc vk ticket ∈ m.cavs → ∀ d ∈ extra, kidEq d.nonce.kid ticket = false) :
    verify k m (dms ++ extra) tr = verify k m dms tr ∧ verify k m (extra ++ dms) tr = verify k m dms tr := by
  have hb : ∀ loc vk ticket, Cav.tp loc vk ticket ∈ m.cavs →
      byTicket (dms ++ extra) ticket = byTicket dms ticket ∧ byTicket (extra ++ dms) ticket = byTicket dms ticket := by
    intro loc vk ticket hm
    have : (extra.filter fun d => kidEq d.nonce.kid ticket) = [] := by
      apply List.filter_eq_nil_iff.mpr
      intro d hd; simp [h loc vk ticket hm d hd]
    simp [byTicket, List.filter_append, this]
  constructor
  · dsimp only [verify, verifyWith]
    rw [walk_congr _ _ (byTicket (dms ++ extra)) (byTicket dms) _ _ _ (fun l v t hm => (hb l v t hm).1)]
  · dsimp only [verify, verifyWith]
    rw [walk_congr _ _ (byTicket (extra ++ dms)) (byTicket dms) _ _ _ (fun l v t hm => (hb l v t hm).2)]

/-- one iteration of the `dmLoop` -/
theorem firstDischarge_cons (ids : List B) (ta : Bool) (tr : Bytes → List B) (key : B) (x : Mac B) (xs : List (Mac B)) :
    firstDischarge ids ta tr key (x :: xs) =
      match trustOf (tr x.loc) x.nonce.kid key with
      | none => firstDischarge ids ta tr key xs
      | some t =>
        match verifyFlat key x ids (ta && t) with
        | .ok cs => some cs
        | .error _ => firstDischarge ids ta tr key xs := by
  rw [firstDischarge]
  cases trustOf (tr x.loc) x.nonce.kid key with
  | none => rfl
  | some t => simp only; cases verifyFlat key x ids (ta && t) <;> rfl

/-- candidates presented after an accepted one are never looked at; after a list that yields nothing
the remaining ones decide -/
theorem firstDischarge_append (ids : List B) (ta : Bool) (tr : Bytes → List B) (key : B) :
    ∀ (xs ys : List (Mac B)), firstDischarge ids ta tr key (xs ++ ys) =
      (firstDischarge ids ta tr key xs).orElse (fun _ => firstDischarge ids ta tr key ys)
  | [], ys => by simp [firstDischarge]
  | x :: xs, ys => by
    rw [List.cons_append, firstDischarge_cons, firstDischarge_cons]
    cases trustOf (tr x.loc) x.nonce.kid key with
    | none => simp only; exact firstDischarge_append ids ta tr key xs ys
    | some t =>
      simp only
      cases verifyFlat key x ids (ta && t) with
      | ok cs => simp
      | error e => simp only; exact firstDischarge_append ids ta tr key xs ys

theorem firstDischarge_none_mem (ids : List B) (ta : Bool) (tr : Bytes → List B) (key : B) (d : Mac B) :
    ∀ (ds : List (Mac B)), d ∈ ds → firstDischarge ids ta tr key ds = none → firstDischarge ids ta tr key [d] = none
  | [], h, _ => by cases h
  | x :: xs, h, hn => by
    rw [firstDischarge_cons] at hn
    rcases List.mem_cons.mp h with rfl | h'
    · rw [firstDischarge_cons]
      cases ht : trustOf (tr d.loc) d.nonce.kid key with
      | none => simp [firstDischarge]
      | some t =>
        simp only [ht] at hn ⊢
        cases hv : verifyFlat key d ids (ta && t) with
        | ok cs => simp [hv] at hn
        | error e => simp [firstDischarge]
    · have : firstDischarge ids ta tr key xs = none := by
        cases ht : trustOf (tr x.loc) x.nonce.kid key with
        | none => simpa [ht] using hn
        | some t =>
          simp only [ht] at hn
          cases hv : verifyFlat key x ids (ta && t) with
          | ok cs => simp [hv] at hn
          | error e => simpa [hv] using hn
      exact firstDischarge_none_mem ids ta tr key d xs h' this

/-- `duplicate_discharge_irrelevant`: presenting a candidate a second time (after the others) changes
nothing — if some candidate was accepted it still is the first accepted one, and if none was, the
duplicate is not either -/
theorem duplicate_discharge_irrelevant (ids : List B) (ta : Bool) (tr : Bytes → List B) (key : B) (d : Mac B)
    (ds : List (Mac B)) (h : d ∈ ds) :
    firstDischarge ids ta tr key (ds ++ [d]) = firstDischarge ids ta tr key ds := by
  rw [firstDischarge_append]
  cases hf : firstDischarge ids ta tr key ds with
  | some r => rfl
  | none => simpa using firstDischarge_none_mem ids ta tr key d ds h hf

/-- candidates that are not accepted, presented in front, do not matter either -/
theorem failing_candidates_in_front_irrelevant (ids : List B) (ta : Bool) (tr : Bytes → List B) (key : B)
    (bad ds : List (Mac B)) (h : firstDischarge ids ta tr key bad = none) :
    firstDischarge ids ta tr key (bad ++ ds) = firstDischarge ids ta tr key ds := by
  rw [firstDischarge_append, h]; rfl

/-! ### duplicates, through the whole of `verify` -/

/-- `DupExt l l'`: `l'` is `l` with duplicates inserted — each inserted element already occurs
EARLIER in `l'` (built left to right: keep the next element of `l`, or repeat one already there).
Repeating a candidate in FRONT of its first occurrence is not covered, and must not be: the first
accepted candidate wins, so moving one forward can change which discharge is used. -/
inductive DupExt {α : Type} : List α → List α → Prop
  | nil : DupExt [] []
  | keep (x : α) {l l' : List α} : DupExt l l' → DupExt (l ++ [x]) (l' ++ [x])
  | dup (x : α) {l l' : List α} : DupExt l l' → x ∈ l' → DupExt l (l' ++ [x])

theorem dupExt_append {α : Type} : ∀ (r : List α) {l l' : List α}, DupExt l l' → DupExt (l ++ r) (l' ++ r)
  | [], _, _, h => by simpa using h
  | x :: r, l, l', h => by
    have := dupExt_append r (DupExt.keep x h)
    simpa [List.append_assoc] using this

theorem dupExt_refl {α : Type} (l : List α) : DupExt l l := by
  simpa using dupExt_append l (DupExt.nil (α := α))

theorem dupExt_filter {α : Type} (p : α → Bool) {l l' : List α} (h : DupExt l l') :
    DupExt (l.filter p) (l'.filter p) := by
  induction h with
  | nil => exact .nil
  | keep x _ ih =>
    simp only [List.filter_append, List.filter_cons, List.filter_nil]
    cases p x
    · simpa using ih
    · exact .keep x ih
  | dup x _ hx ih =>
    simp only [List.filter_append, List.filter_cons, List.filter_nil]
    cases hp : p x
    · simpa using ih
    · exact .dup x ih (List.mem_filter.mpr ⟨hx, hp⟩)

theorem dupExt_nil_iff {α : Type} {l l' : List α} (h : DupExt l l') : l = [] ↔ l' = [] := by
  induction h with
  | nil => simp
  | keep x _ _ => simp
  | @dup x l l' _ hx ih =>
    have hne : l' ≠ [] := List.ne_nil_of_mem hx
    constructor
    · intro hl; exact absurd (ih.mp hl) hne
    · intro hl; simp at hl

/-- duplicates inserted after a first occurrence never change what the `dmLoop` finds -/
theorem dupExt_firstDischarge (ids : List B) (ta : Bool) (tr : Bytes → List B) (key : B) {l l' : List (Mac B)}
    (h : DupExt l l') : firstDischarge ids ta tr key l = firstDischarge ids ta tr key l' := by
  induction h with
  | nil => rfl
  | keep x _ ih => rw [firstDischarge_append, firstDischarge_append, ih]
  | dup x _ hx ih => rw [duplicate_discharge_irrelevant ids ta tr key x _ hx]; exact ih

/-- two lookups that `verify` cannot tell apart: defined on the same tickets, and where both are
defined the `dmLoop` finds the same thing in both candidate lists — whatever the binding ids, trust
settings and key it is run with -/
def LookupSim (l1 l2 : B → Option (List (Mac B))) : Prop :=
  ∀ ticket, (l1 ticket).isSome = (l2 ticket).isSome ∧
    ∀ a b, l1 ticket = some a → l2 ticket = some b →
      ∀ ids ta tr key, firstDischarge ids ta tr key a = firstDischarge ids ta tr key b

theorem walkOK_lookupSim (proof : Bool) (l1 l2 : B → Option (List (Mac B))) (h : LookupSim l1 l2) (pids : List B) :
    ∀ (cs : List (Cav B)) (t : B), walkOK proof l1 pids t cs = walkOK proof l2 pids t cs
  | [], _ => rfl
  | c :: cs, t => by
    have hs : stepOK proof l1 pids t c = stepOK proof l2 pids t c := by
      unfold stepOK
      split
      · rename_i vk ticket _
        rw [(h ticket).1]
      · rfl
    simp only [walkOK, hs]
    cases macCav t c with
    | none => rfl
    | some t' => simp only [walkOK_lookupSim proof l1 l2 h pids cs t']

theorem mapM_congr_map {α β : Type} (F : α → Option β) : ∀ (xs ys : List α), xs.map F = ys.map F → xs.mapM F = ys.mapM F
  | [], [], _ => rfl
  | [], _ :: _, h => by simp at h
  | _ :: _, [], h => by simp at h
  | x :: xs, y :: ys, h => by
    simp only [List.map_cons, List.cons.injEq] at h
    rw [List.mapM_cons, List.mapM_cons, h.1, mapM_congr_map F xs ys h.2]

theorem pendOf_lookupSim (l1 l2 : B → Option (List (Mac B))) (h : LookupSim l1 l2) (ids : List B) (ta : Bool)
    (tr : Bytes → List B) :
    ∀ (cs : List (Cav B)) (t : B),
      (pendOf l1 t cs).map (fun p => firstDischarge ids ta tr p.key p.ds) =
      (pendOf l2 t cs).map (fun p => firstDischarge ids ta tr p.key p.ds)
  | [], _ => rfl
  | c :: cs, t => by
    have hs : (pendOfStep l1 t c).map (fun p => firstDischarge ids ta tr p.key p.ds) =
        (pendOfStep l2 t c).map (fun p => firstDischarge ids ta tr p.key p.ds) := by
      unfold pendOfStep
      split
      · rename_i vk ticket _
        obtain ⟨h1, h2⟩ := h ticket
        cases ha : l1 ticket with
        | none =>
          have : l2 ticket = none := by
            rw [ha] at h1
            cases hb : l2 ticket with
            | none => rfl
            | some b => rw [hb] at h1; simp at h1
          simp [this]
        | some a =>
          cases hb : l2 ticket with
          | none => rw [ha, hb] at h1; simp at h1
          | some b =>
            cases unsealKey t vk with
            | none => simp
            | some dk => simp [h2 a b ha hb ids ta tr dk]
      · rfl
    simp only [pendOf, List.map_append, hs]
    cases macCav t c with
    | none => rfl
    | some t' => simp only [pendOf_lookupSim l1 l2 h ids ta tr cs t']

/-- the candidate lists `verify` builds from two discharge lists related by `DupExt` are
indistinguishable -/
theorem byTicket_dupExt {dms dms' : List (Mac B)} (h : DupExt dms dms') : LookupSim (byTicket dms) (byTicket dms') := by
  intro ticket
  have hf := dupExt_filter (fun d : Mac B => kidEq d.nonce.kid ticket) h
  have hn := dupExt_nil_iff hf
  have he : (dms.filter fun d => kidEq d.nonce.kid ticket).isEmpty = (dms'.filter fun d => kidEq d.nonce.kid ticket).isEmpty := by
    cases h1 : (dms.filter fun d => kidEq d.nonce.kid ticket) with
    | nil => rw [hn.mp h1]
    | cons x xs =>
      cases h2 : (dms'.filter fun d => kidEq d.nonce.kid ticket) with
      | nil => rw [hn.mpr h2] at h1; cases h1
      | cons y ys => rfl
  constructor
  · simp only [byTicket]
    rw [he]
    cases (dms'.filter fun d => kidEq d.nonce.kid ticket).isEmpty <;> rfl
  · intro a b ha hb ids ta tr key
    simp only [byTicket] at ha hb
    split at ha
    · cases ha
    · split at hb
      · cases hb
      · simp only [Option.some.injEq] at ha hb
        subst ha; subst hb
        exact dupExt_firstDischarge ids ta tr key hf

/-- **duplicate discharges are irrelevant to `verify` as a whole**: presenting some discharges again —
any number of copies, anywhere AFTER the first occurrence of the same discharge, for any tickets —
changes neither whether the token is accepted nor the caveats returned -/
theorem duplicate_discharges_irrelevant_verify (k : B) (m : Mac B) (dms dms' : List (Mac B)) (h : DupExt dms dms')
    (tr : Bytes → List B) (cs : List (Cav B)) :
    verify k m dms tr = .ok cs ↔ verify k m dms' tr = .ok cs := by
  have hl := byTicket_dupExt h
  rw [verify_char, verify_char, walkOK_lookupSim _ _ _ hl]
  have := fun ids => mapM_congr_map _ _ _ (pendOf_lookupSim _ _ hl ids true tr m.cavs (macNonce k m.nonce))
  simp only [this]

/-- in particular: the whole header presented twice, or one discharge appended again -/
theorem repeated_discharges_irrelevant_verify (k : B) (m : Mac B) (dms : List (Mac B)) (tr : Bytes → List B)
    (cs : List (Cav B)) :
    (verify k m (dms ++ dms) tr = .ok cs ↔ verify k m dms tr = .ok cs) ∧
    (∀ d ∈ dms, verify k m (dms ++ [d]) tr = .ok cs ↔ verify k m dms tr = .ok cs) := by
  have gen : ∀ (extra l' : List (Mac B)), DupExt dms l' → (∀ x ∈ extra, x ∈ l') → DupExt dms (l' ++ extra) := by
    intro extra
    induction extra with
    | nil => intro l' h _; simpa using h
    | cons x e ih =>
      intro l' h hx
      have h1 := DupExt.dup x h (hx x List.mem_cons_self)
      have := ih (l' ++ [x]) h1 (fun y hy => List.mem_append_left _ (hx y (List.mem_cons_of_mem _ hy)))
      simpa [List.append_assoc] using this
  have happ : ∀ extra : List (Mac B), (∀ x ∈ extra, x ∈ dms) → DupExt dms (dms ++ extra) :=
    fun extra hx => gen extra dms (dupExt_refl dms) hx
  exact ⟨(duplicate_discharges_irrelevant_verify k m dms _ (happ dms fun _ h => h) tr cs).symm,
    fun d hd => (duplicate_discharges_irrelevant_verify k m dms _ (happ [d] (by simpa using hd)) tr cs).symm⟩

/-- [lawful] the third party recovers from a ticket exactly the conditions its author attached, and
the discharge it prepares is rooted at the secret the caveat embeds, keyed by the ticket — for a
third-party key that is an AEAD key, an AEAD nonce, and a ticket body within the codec's domain
(`okKey`, `okNonce`, `okTicketBody` of the instance: `True` symbolically; 32 bytes, 12 bytes and
well-formed caveats concretely, see Props/Concrete.lean) -/
theorem ticket_roundtrip [LawfulCrypto B] (ka : B) (loc : Bytes) (cs : List (Cav B)) (rn tn vn rnd : B) (p : Bool)
    (hka : LawfulCrypto.okKey ka) (htn : LawfulCrypto.okNonce tn) (hb : LawfulCrypto.okTicketBody rn cs) :
    ∃ ticket, newCaveat3P ka loc cs rn tn vn = .new3p loc ticket rn vn ∧
      dischargeTicket ka loc ticket rnd p = .ok (cs, mint rn ticket loc rnd p) := by
  refine ⟨sealTicket ka tn rn cs, rfl, ?_⟩
  unfold dischargeTicket
  rw [LawfulCrypto.openTicket_sealTicket ka tn rn cs hka htn hb]

/-- a ticket the key does not open, or that opens to something else, yields an error and no discharge -/
theorem bad_ticket_rejected (ka : B) (loc : Bytes) (ticket rnd : B) (p : Bool) :
    (openTicket ka ticket = .cannotOpen → dischargeTicket ka loc ticket rnd p = .error .cannotOpen) ∧
    (openTicket ka ticket = .badPlaintext → dischargeTicket ka loc ticket rnd p = .error .badPlaintext) := by
  constructor <;> (intro h; unfold dischargeTicket; rw [h])

/-! ### non-vacuity (symbolic instance) -/

section examples
open Symbolic Symbolic.Term

/-- issuer key `atom 0`; third-party key `atom 5`; discharge key `atom 11` -/
def e0 : Mac Term := mint (atom 0) (lit [1]) [] (atom 1) false
def etk : Term := sealTicket (atom 5) (atom 12) (atom 11) [.isUser 3]
def e1 : Mac Term := (add e0 [.plain (.isUser 7), .new3p [9] etk (atom 11) (atom 13)]).1
/-- the genuine discharge with an extra caveat, finalised -/
def ed : Mac Term := encodeState (add (mint (atom 11) etk [9] (atom 14) true) [.plain (.confineUser 5)]).1
/-- the same ticket as key-id under another secret; another ticket; a discharge that itself demands a discharge -/
def edWrongKey : Mac Term := encodeState (mint (atom 77) etk [9] (atom 15) true)
def edOther : Mac Term := encodeState (mint (atom 11) (lit [4]) [9] (atom 16) true)
def edNested : Mac Term :=
  encodeState (add (mint (atom 11) etk [9] (atom 17) true) [.new3p [8] (lit [5]) (atom 18) (atom 19)]).1

example : verify (atom 0) e1 [ed] (fun _ => []) = .ok [.isUser 7, .confineUser 5] := by rfl
example : verify (atom 0) e1 [edWrongKey] (fun _ => []) = .error .dischargeFailed := by rfl
example : verify (atom 0) e1 [edNested] (fun _ => []) = .error .dischargeFailed := by rfl
example := (verify_char (atom 0) e1 [ed] (fun _ => []) _).mp (by rfl)
example := missing_discharge_rejected (atom 0) e1 [edOther] (fun _ => []) [9]
  (sealKey (add e0 [.plain (.isUser 7)]).1.tail (atom 13) (atom 11)) etk (by decide) (by decide)
example : verify (atom 0) e1 [edOther] (fun _ => []) = .error .noDischarge := by rfl
example := nested_3p_never_discharged (atom 11) edNested [] false [8]
  (sealKey (mint (atom 11) etk [9] (atom 17) true).tail (atom 19) (atom 18)) (lit [5]) (by decide)
example := discharge_caveats_imposed (atom 0) e1 [ed] (fun _ => []) _ (by rfl)
example := extra_discharges_irrelevant (atom 0) e1 [ed] [edOther] (fun _ => []) (by
  intro loc vk ticket hm d hd
  simp only [List.mem_singleton] at hd; subst hd
  have : ticket = etk := by
    have hc : e1.cavs = [.isUser 7, .tp [9] (sealKey (add e0 [.plain (.isUser 7)]).1.tail (atom 13) (atom 11)) etk] := by rfl
    rw [hc] at hm
    simp only [List.mem_cons, List.not_mem_nil, or_false, reduceCtorEq, false_or, Cav.tp.injEq] at hm
    exact hm.2.2
  subst this; decide)
example : verify (atom 0) e1 ([ed] ++ [edOther]) (fun _ => []) = .ok [.isUser 7, .confineUser 5] := by rfl
example := (first_accepted_discharge_decides [] true (fun _ => []) (atom 11) [edWrongKey, ed] [.confineUser 5]).mp (by rfl)
example := duplicate_discharge_irrelevant [] true (fun _ => []) (atom 11) ed [edWrongKey, ed] (by simp)
example := (repeated_discharges_irrelevant_verify (atom 0) e1 [edWrongKey, ed] (fun _ => []) [.isUser 7, .confineUser 5]).2 ed (by simp)
example : firstDischarge [] true (fun _ => []) (atom 11) ([edWrongKey, ed] ++ [ed]) = some [.confineUser 5] := by rfl
example := failing_candidates_in_front_irrelevant [] true (fun _ => []) (atom 11) [edWrongKey, edNested] [ed] (by rfl)
example := ticket_roundtrip (atom 5) [9] [Cav.isUser 3] (atom 11) (atom 12) (atom 13) (atom 14) true trivial trivial trivial
example : dischargeTicket (atom 6) [9] etk (atom 14) true = .error .cannotOpen :=
  (bad_ticket_rejected (atom 6) [9] etk (atom 14) true).1 (by rfl)

end examples

/-- non-vacuity of `duplicate_discharges_irrelevant_verify`: `[a, b]` against `[a, a, b, a, b]` -/
example : DupExt [1, 2] [1, 1, 2, 1, 2] := by
  have h0 : DupExt ([] ++ [1]) ([] ++ [1]) := .keep 1 .nil
  have h1 : DupExt [1] ([1] ++ [1]) := .dup 1 h0 (by simp)
  have h2 : DupExt ([1] ++ [2]) ([1, 1] ++ [2]) := .keep 2 h1
  have h3 : DupExt [1, 2] ([1, 1, 2] ++ [1]) := .dup 1 h2 (by simp)
  exact .dup 2 h3 (by simp)

end Macaroon.Props.C04

#print axioms Macaroon.Props.C04.verify_char
#print axioms Macaroon.Props.C04.first_accepted_discharge_decides
#print axioms Macaroon.Props.C04.missing_discharge_rejected
#print axioms Macaroon.Props.C04.nested_3p_never_discharged
#print axioms Macaroon.Props.C04.discharge_caveats_imposed
#print axioms Macaroon.Props.C04.candidates_carry_the_ticket
#print axioms Macaroon.Props.C04.extra_discharges_irrelevant
#print axioms Macaroon.Props.C04.firstDischarge_cons
#print axioms Macaroon.Props.C04.firstDischarge_append
#print axioms Macaroon.Props.C04.firstDischarge_none_mem
#print axioms Macaroon.Props.C04.duplicate_discharge_irrelevant
#print axioms Macaroon.Props.C04.failing_candidates_in_front_irrelevant
#print axioms Macaroon.Props.C04.ticket_roundtrip
#print axioms Macaroon.Props.C04.bad_ticket_rejected
#print axioms Macaroon.Props.C04.dupExt_append
#print axioms Macaroon.Props.C04.dupExt_refl
#print axioms Macaroon.Props.C04.dupExt_filter
#print axioms Macaroon.Props.C04.dupExt_nil_iff
#print axioms Macaroon.Props.C04.dupExt_firstDischarge
#print axioms Macaroon.Props.C04.walkOK_lookupSim
#print axioms Macaroon.Props.C04.mapM_congr_map
#print axioms Macaroon.Props.C04.pendOf_lookupSim
#print axioms Macaroon.Props.C04.byTicket_dupExt
#print axioms Macaroon.Props.C04.duplicate_discharges_irrelevant_verify
#print axioms Macaroon.Props.C04.repeated_discharges_irrelevant_verify
