/-
C15 — bundles are safe for concurrent use.

`Generated.bundleLocks` is re-extracted from /repo/bundle on every run: per exported entry
point (and control-flow path) the inlined sequence of events on the bundle's RWMutex and
token list.  `bundle_entry_points_flat` is the obligation that ties the schedule-quantified
theorems of `Lemmas/RWMutex.lean` to the code that exists now.

Partial: Go's memory model, the runtime's mutex implementation and races on pointees handed
out by `UnsafeMacaroon()` (documented unsafe) are outside the model; user callbacks
(`callout`) are assumed not to re-enter the same bundle.
-/
import Macaroon.Lemmas.RWMutex
import Macaroon.Lemmas.Atomic
import Macaroon.Generated.BundleLocks

namespace Macaroon.Props.C15
open Macaroon Macaroon.Conc Macaroon.Generated

/-- every exported entry point of package bundle takes the lock in flat sections only: no
nested acquisition, every access to the token list inside a section of the right kind -/
theorem bundle_entry_points_flat : ∀ e ∈ bundleLocks, Flat e.trace = true := by decide

/-- a bundle derived by selection shares the token objects only if it shares the mutex that
guards them -/
theorem derived_bundles_share_guard :
    ∀ p ∈ bundleSharesTokens, p.2 = true → (p.1, true) ∈ bundleSharesMutex := by decide

theorem flatFrom_append (m : Mode) (p q : List Ev) (hp : FlatFrom m p = true) (hq : Flat q = true) :
    FlatFrom m (p ++ q) = true := by
  induction p generalizing m with
  | nil => cases m <;> simp_all [FlatFrom, Flat]
  | cons e r ih =>
    cases m <;> cases e <;> simp_all [FlatFrom]

/-- what a goroutine does with a bundle: any sequence of entry-point paths -/
def IsCallSequence (p : List Ev) : Prop :=
  ∃ es : List Entry, (∀ e ∈ es, e ∈ bundleLocks) ∧ p = es.flatMap (·.trace)

theorem callSequence_flat (p : List Ev) (h : IsCallSequence p) : Flat p = true := by
  obtain ⟨es, hes, rfl⟩ := h
  induction es with
  | nil => rfl
  | cons e es ih =>
    simp only [List.flatMap_cons]
    exact flatFrom_append .idle _ _ (bundle_entry_points_flat e (hes e (by simp)))
      (ih (fun x hx => hes x (by simp [hx])))

/-- Any number of goroutines, each calling any sequence of Bundle operations (on the bundle or
on bundles derived from it by selection, which share its mutex), under every schedule: some
unfinished goroutine can always move — no deadlock, so under a fair scheduler every call returns. -/
theorem bundle_deadlock_free (progs : List (List Ev)) (h : ∀ p ∈ progs, IsCallSequence p) (sched : List Nat) :
    deadlocked (run (init progs) sched) = false :=
  flat_deadlock_free progs (fun p hp => callSequence_flat p (h p hp)) sched

/-- … and no reachable state has two goroutines about to touch the token list, one of them writing -/
theorem bundle_race_free (progs : List (List Ev)) (h : ∀ p ∈ progs, IsCallSequence p) (sched : List Nat) :
    raceAt (run (init progs) sched) = false :=
  flat_race_free progs (fun p hp => callSequence_flat p (h p hp)) sched

/-- … and every such system can run to completion -/
theorem bundle_all_return (progs : List (List Ev)) (h : ∀ p ∈ progs, IsCallSequence p) :
    ∃ sched, finished (run (init progs) sched) = true :=
  flat_all_finish progs (fun p hp => callSequence_flat p (h p hp))

/-! ### modifications take effect atomically -/

/-- every modifying entry point reads the token list INSIDE the write section in which it then
writes it (no check-then-act across two sections): the second obligation over the regenerated
traces -/
theorem bundle_entry_points_read_before_write : ∀ e ∈ bundleLocks, RBW e.trace = true := by decide

theorem callSequence_rbw (p : List Ev) (h : IsCallSequence p) : RBW p = true := by
  obtain ⟨es, hes, rfl⟩ := h
  induction es with
  | nil => rfl
  | cons e es ih =>
    simp only [List.flatMap_cons]
    exact RBWFrom_append false _ _ (bundle_entry_points_read_before_write e (hes e (by simp)))
      (ih (fun x hx => hes x (by simp [hx])))

/-- while one goroutine is inside a modifying operation's critical section, no other goroutine is
inside any operation's critical section - on the bundle or on a bundle derived from it by
selection: readers see the token list before the modification or after it, never during -/
theorem bundle_sections_exclusive (progs : List (List Ev)) (h : ∀ p ∈ progs, IsCallSequence p)
    (sched : List Nat) (i j : Nat) (t u : Thread)
    (hi : (run (init progs) sched).threads[i]? = some t)
    (hj : (run (init progs) sched).threads[j]? = some u) (hij : i ≠ j) (ht : t.inWr = true) :
    u.inRd = false ∧ u.inWr = false :=
  flat_sections_exclusive progs (fun p hp => callSequence_flat p (h p hp)) sched i j t u hi hj hij ht

/-- no modification is lost: with the token list as a value that every `read` event snapshots and
every `write` event replaces by `upd i snapshot` (what goroutine `i` computed from the list as it
saw it), under every schedule the list ends up as the modifications applied one after the other,
in the order in which they were written -/
theorem bundle_no_lost_update {σ} (upd : Nat → σ → σ) (s0 : σ) (progs : List (List Ev))
    (h : ∀ p ∈ progs, IsCallSequence p) (sched : List Nat) :
    (drun upd (init progs, ginit s0) sched).2.shared
      = (drun upd (init progs, ginit s0) sched).2.log.foldl (fun s i => upd i s) s0 :=
  flat_no_lost_update upd s0 progs (fun p hp => callSequence_flat p (h p hp))
    (fun p hp => callSequence_rbw p (h p hp)) sched

/-- the same per CALL: a goroutine that makes several modifying calls applies a different function
each time — its `k`-th write stores `updc i k` of its snapshot.  Under every schedule the list (first
component; the second is the ghost count of writes per goroutine) is the write log applied in order
with each goroutine's writes numbered 0, 1, 2, …, and the count is the number of its writes -/
theorem bundle_no_lost_update_per_call {σ} (updc : Nat → Nat → σ → σ) (s0 : σ) (progs : List (List Ev))
    (h : ∀ p ∈ progs, IsCallSequence p) (sched : List Nat) :
    (drun (perCall updc) (init progs, ginit (s0, fun _ => 0)) sched).2.shared
      = applyLog updc s0 (drun (perCall updc) (init progs, ginit (s0, fun _ => 0)) sched).2.log ∧
    ∀ i, (applyLog updc s0 (drun (perCall updc) (init progs, ginit (s0, fun _ => 0)) sched).2.log).2 i
      = (drun (perCall updc) (init progs, ginit (s0, fun _ => 0)) sched).2.log.count i :=
  ⟨flat_no_lost_update_per_call updc s0 progs (fun p hp => callSequence_flat p (h p hp))
    (fun p hp => callSequence_rbw p (h p hp)) sched, fun i => applyLog_count updc s0 _ i⟩

/-- non-vacuity: goroutine 0 adds a token, then (its second call) removes the first element; goroutine 1
adds a token in between -/
example : (applyLog (fun i k (s : List Nat) => if i = 0 ∧ k = 1 then s.drop 1 else s ++ [10 * i + k]) [] [0, 1, 0]).1
    = [10] := by decide

/-- tokens added concurrently are all present afterwards -/
theorem bundle_added_tokens_all_present {τ} (x : Nat → List τ) (s0 : List τ) (progs : List (List Ev))
    (h : ∀ p ∈ progs, IsCallSequence p) (sched : List Nat) :
    (drun (fun i s => s ++ x i) (init progs, ginit s0) sched).2.shared
      = s0 ++ ((drun (fun i s => s ++ x i) (init progs, ginit s0) sched).2.log.map x).flatten :=
  flat_appends_all_present x s0 progs (fun p hp => callSequence_flat p (h p hp))
    (fun p hp => callSequence_rbw p (h p hp)) sched

/-- readers see either the old or the new token list, never a mix: under every schedule, what any
goroutine has read (its snapshot) is the initial list with the first `k` modifications of the write
log applied — each one whole, in the order written —, and a snapshot taken inside the section the
goroutine is still in is the CURRENT list -/
theorem bundle_reads_see_prefix {σ} (upd : Nat → σ → σ) (s0 : σ) (progs : List (List Ev))
    (h : ∀ p ∈ progs, IsCallSequence p) (sched : List Nat) (i : Nat) :
    let g := (drun upd (init progs, ginit s0) sched).2
    (∃ k, k ≤ g.log.length ∧ g.snap i = (g.log.take k).foldl (fun s j => upd j s) s0) ∧
    (∀ t, (run (init progs) sched).threads[i]? = some t → g.fresh i = true → g.snap i = g.shared) :=
  flat_reads_see_prefix upd s0 progs (fun p hp => callSequence_flat p (h p hp))
    (fun p hp => callSequence_rbw p (h p hp)) sched i

/-- every call returns under ANY scheduler (not just on some schedule): for goroutines running
arbitrary call sequences and every schedule, (1) at most `Σ (2·|p| + 1)` steps of the schedule move
a goroutine at all (every other step is a blocked or finished goroutine being picked), (2) while some
goroutine is unfinished some goroutine can move, (3) so when none can move all calls have returned.
A scheduler that picks an enabled goroutine whenever there is one completes every call after at
most that many picks. -/
theorem bundle_every_maximal_run_finishes (progs : List (List Ev)) (h : ∀ p ∈ progs, IsCallSequence p)
    (sched : List Nat) :
    effSteps (init progs) sched ≤ (progs.map fun p => 2 * p.length + 1).sum ∧
    (finished (run (init progs) sched) = false →
      ∃ i, i < (run (init progs) sched).threads.length ∧ enabled (run (init progs) sched) i = true) ∧
    ((∀ i, enabled (run (init progs) sched) i = false) → finished (run (init progs) sched) = true) :=
  flat_every_maximal_run_finishes progs (fun p hp => callSequence_flat p (h p hp)) sched

/-- non-vacuity: a reader's snapshot between two writers is the list after the first write only
(prefix of length 1 of the log `[0, 2]`), and a schedule that picks blocked goroutines makes fewer
effective steps than it has entries -/
example : let d := drun (fun i s => s ++ [i]) (init [[.lock, .read, .write, .unlock], [.rlock, .read, .runlock],
      [.lock, .read, .write, .unlock]], ginit ([] : List Nat)) [0, 0, 0, 0, 0, 1, 1, 1, 2, 2, 2, 2, 2]
    d.2.snap 1 = [0] ∧ d.2.log = [0, 2] ∧ d.2.shared = [0, 2] := by decide
example : effSteps (init [[.lock, .unlock], [.rlock, .runlock]]) [0, 0, 1, 1, 1, 0, 1, 1] = 5 ∧
    finished (run (init [[.lock, .unlock], [.rlock, .runlock]]) [0, 0, 1, 1, 1, 0, 1, 1]) = true := by decide

/-- why the second obligation matters: a check-then-act writer (read under the read lock, write
later under the write lock) loses the other goroutine's token -/
def checkThenActProgs : List (List Ev) :=
  [[.rlock, .read, .runlock, .lock, .write, .unlock], [.rlock, .read, .runlock, .lock, .write, .unlock]]
theorem check_then_act_loses_an_update :
    (drun (fun i s => s ++ [i]) (init checkThenActProgs, ginit ([] : List Nat))
      [0, 0, 0, 1, 1, 1, 0, 0, 0, 0, 1, 1, 1, 1]).2.shared = [1] ∧
    (drun (fun i s => s ++ [i]) (init checkThenActProgs, ginit ([] : List Nat))
      [0, 0, 0, 1, 1, 1, 0, 0, 0, 0, 1, 1, 1, 1]).2.log = [0, 1] := by decide

/-- non-vacuity: two goroutines adding tokens while a third filters, one concrete schedule -/
example : (drun (fun i s => s ++ [i]) (init [[.lock, .read, .write, .unlock], [.lock, .read, .write, .unlock]], ginit ([] : List Nat))
      [0, 1, 0, 0, 0, 0, 1, 1, 1, 1]).2.shared = [0, 1] := by decide

/-- every critical section of an entry point that calls user code (a filter, a callback, a verifier,
a discharger: code that may panic) is released by a DEFERRED unlock, so a panic that the caller
recovers from leaves the lock free and later calls return - the third obligation over the
regenerated facts. (The lock model itself has no panics: there a callout always returns; this fact
is what makes that idealisation harmless. Exercised by `panickingCallbackRun` of family conc.) -/
theorem bundle_callouts_under_deferred_unlock :
    ∀ p ∈ bundleCalloutsUnderDeferredUnlock, p.2 = true := by decide

/-- why flatness matters: a reader that re-acquires the read lock deadlocks with a writer that
arrives in between (the schedule the search step hands to the stress runner) -/
theorem nested_rlock_deadlocks : deadlocked (run (init nestedRLockProgs) nestedRLockWitness) = true := by decide

/-- non-vacuity: the table is not empty and contains writers and readers -/
example : bundleLocks.length ≥ 20 := by decide
example : IsCallSequence ((bundleLocks.take 3).flatMap (·.trace)) :=
  ⟨bundleLocks.take 3, fun e he => List.mem_of_mem_take he, rfl⟩

end Macaroon.Props.C15

#print axioms Macaroon.Props.C15.bundle_entry_points_flat
#print axioms Macaroon.Props.C15.derived_bundles_share_guard
#print axioms Macaroon.Props.C15.flatFrom_append
#print axioms Macaroon.Props.C15.callSequence_flat
#print axioms Macaroon.Props.C15.bundle_deadlock_free
#print axioms Macaroon.Props.C15.bundle_race_free
#print axioms Macaroon.Props.C15.bundle_all_return
#print axioms Macaroon.Props.C15.nested_rlock_deadlocks
#print axioms Macaroon.Props.C15.bundle_callouts_under_deferred_unlock
#print axioms Macaroon.Props.C15.bundle_entry_points_read_before_write
#print axioms Macaroon.Props.C15.callSequence_rbw
#print axioms Macaroon.Props.C15.bundle_sections_exclusive
#print axioms Macaroon.Props.C15.bundle_no_lost_update
#print axioms Macaroon.Props.C15.bundle_added_tokens_all_present
#print axioms Macaroon.Props.C15.check_then_act_loses_an_update
#print axioms Macaroon.Props.C15.bundle_reads_see_prefix
#print axioms Macaroon.Props.C15.bundle_every_maximal_run_finishes
#print axioms Macaroon.Props.C15.bundle_no_lost_update_per_call
