/-
C15 — bundles are safe for concurrent use.

`Generated.bundleLocks` is re-extracted from /repo/bundle on every run: per exported entry
point (and control-flow path) the inlined sequence of events on the bundle's RWMutex and
token list.  `bundle_entry_points_flat` is the obligation that ties the schedule-quantified
theorems of `Lemmas/RWMutex.lean` to the code that exists now.

Partial: Go's memory model, the runtime's mutex implementation and races on pointees handed
out by `UnsafeMacaroon()` (documented unsafe) are outside the model; user callbacks
(`callout`) are assumed not to re-enter the same bundle.
-/
import Macaroon.Lemmas.RWMutex
import Macaroon.Generated.BundleLocks

namespace Macaroon.Props.C15
open Macaroon Macaroon.Conc Macaroon.Generated

/-- every exported entry point of package bundle takes the lock in flat sections only: no
nested acquisition, every access to the token list inside a section of the right kind -/
theorem bundle_entry_points_flat : ∀ e ∈ bundleLocks, Flat e.trace = true := by decide

/-- a bundle derived by selection shares the token objects only if it shares the mutex that
guards them -/
theorem derived_bundles_share_guard :
    ∀ p ∈ bundleSharesTokens, p.2 = true → (p.1, true) ∈ bundleSharesMutex := by decide

theorem flatFrom_append (m : Mode) (p q : List Ev) (hp : FlatFrom m p = true) (hq : Flat q = true) :
    FlatFrom m (p ++ q) = true := by
  induction p generalizing m with
  | nil => cases m <;> simp_all [FlatFrom, Flat]
  | cons e r ih =>
    cases m <;> cases e <;> simp_all [FlatFrom]

/-- what a goroutine does with a bundle: any sequence of entry-point paths -/
def IsCallSequence (p : List Ev) : Prop :=
  ∃ es : List Entry, (∀ e ∈ es, e ∈ bundleLocks) ∧ p = es.flatMap (·.trace)

theorem callSequence_flat (p : List Ev) (h : IsCallSequence p) : Flat p = true := by
  obtain ⟨es, hes, rfl⟩ := h
  induction es with
  | nil => rfl
  | cons e es ih =>
    simp only [List.flatMap_cons]
    exact flatFrom_append .idle _ _ (bundle_entry_points_flat e (hes e (by simp)))
      (ih (fun x hx => hes x (by simp [hx])))

/-- Any number of goroutines, each calling any sequence of Bundle operations (on the bundle or
on bundles derived from it by selection, which share its mutex), under every schedule: some
unfinished goroutine can always move — no deadlock, so under a fair scheduler every call returns. -/
theorem bundle_deadlock_free (progs : List (List Ev)) (h : ∀ p ∈ progs, IsCallSequence p) (sched : List Nat) :
    deadlocked (run (init progs) sched) = false :=
  flat_deadlock_free progs (fun p hp => callSequence_flat p (h p hp)) sched

/-- … and no reachable state has two goroutines about to touch the token list, one of them writing -/
theorem bundle_race_free (progs : List (List Ev)) (h : ∀ p ∈ progs, IsCallSequence p) (sched : List Nat) :
    raceAt (run (init progs) sched) = false :=
  flat_race_free progs (fun p hp => callSequence_flat p (h p hp)) sched

/-- … and every such system can run to completion -/
theorem bundle_all_return (progs : List (List Ev)) (h : ∀ p ∈ progs, IsCallSequence p) :
    ∃ sched, finished (run (init progs) sched) = true :=
  flat_all_finish progs (fun p hp => callSequence_flat p (h p hp))

/-- why flatness matters: a reader that re-acquires the read lock deadlocks with a writer that
arrives in between (the schedule the search step hands to the stress runner) -/
theorem nested_rlock_deadlocks : deadlocked (run (init nestedRLockProgs) nestedRLockWitness) = true := by decide

/-- non-vacuity: the table is not empty and contains writers and readers -/
example : bundleLocks.length ≥ 20 := by decide
example : IsCallSequence ((bundleLocks.take 3).flatMap (·.trace)) :=
  ⟨bundleLocks.take 3, fun e he => List.mem_of_mem_take he, rfl⟩

end Macaroon.Props.C15

#print axioms Macaroon.Props.C15.bundle_entry_points_flat
#print axioms Macaroon.Props.C15.derived_bundles_share_guard
#print axioms Macaroon.Props.C15.flatFrom_append
#print axioms Macaroon.Props.C15.callSequence_flat
#print axioms Macaroon.Props.C15.bundle_deadlock_free
#print axioms Macaroon.Props.C15.bundle_race_free
#print axioms Macaroon.Props.C15.bundle_all_return
#print axioms Macaroon.Props.C15.nested_rlock_deadlocks
