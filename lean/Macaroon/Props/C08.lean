/-
C08 — proof tokens are final once encoded.

Generic theorems (every `Crypto B`) over the token state machine of Token/Macaroon.lean:
`add`, `encodeState` (the state change of Encode/String/Clone), `verifyWith`; a decoded copy is
`newProof = false` by construction (`Concrete.ofWire`).  The symbolic part (a proof extended by
hand from its published tail is rejected: `extension_rejected`; an unfinalised tail on the wire is
rejected: `unfinalised_wire_tail_rejected`) is in Props/Symbolic.lean; the state machine with wire hops
(`final_stable_with_hops`, `final_refuses_add_with_hops`) at byte level in Props/Concrete.lean.
Tie: family `proof`.
-/
import Macaroon.Lemmas.Token
import Macaroon.Token.Concrete
import Macaroon.Crypto.Symbolic

namespace Macaroon.Props.C08
open Macaroon Macaroon.Crypto Macaroon.Lemmas
variable {B : Type} [Crypto B]

/-- after an encode (or clone/print, which encode) the token is no longer "new" -/
theorem encoded_not_new (m : Mac B) (h : m.nonce.proof = true) : (encodeState m).newProof = false := by
  unfold encodeState
  by_cases hn : m.newProof = true <;> simp [h, hn]

/-- once encoded, adding caveats is refused and leaves the token unchanged -/
theorem final_after_encode (m : Mac B) (items : List (AddItem B)) (h : m.nonce.proof = true) :
    add (encodeState m) items = (encodeState m, some .finalizedProof) := by
  have hn := encoded_not_new m h
  have hp : (encodeState m).nonce.proof = true := by
    unfold encodeState; split <;> simp [h]
  unfold add
  simp [hp, hn]

/-- … however many operations of the state machine follow: every later state refuses `add` -/
inductive Op (B : Type)
  | add (items : List (AddItem B))
  | encode           -- Encode / String / Clone all perform this state change

def step (m : Mac B) : Op B → Mac B
  | .add items => (add m items).1
  | .encode => encodeState m

theorem proof_stays_proof (m : Mac B) (op : Op B) : (step m op).nonce = m.nonce := by
  cases op with
  | encode => simp only [step, encodeState]; split <;> rfl
  | add items =>
    simp only [step, add]
    split
    · rfl
    · split
      · rfl
      · exact addLoop_nonce _ _ _
where
  addLoop_nonce : ∀ (its : List (AddItem B)) (m : Mac B) (seen : List Bytes), (addLoop its m seen).1.nonce = m.nonce
    | [], m, seen => rfl
    | it :: rest, m, seen => by
      unfold addLoop
      cases it with
      | plain c =>
        simp only
        split
        · rfl
        · split
          · rfl
          · split
            · rfl
            · rw [addLoop_nonce]
      | new3p loc ticket rn nonce =>
        simp only
        split
        · rfl
        · split
          · rfl
          · rw [addLoop_nonce]

theorem final_is_stable (m : Mac B) (h : m.nonce.proof = true) (hn : m.newProof = false) (op : Op B) :
    step m op = m := by
  cases op with
  | encode => simp [step, encodeState, h, hn]
  | add items => simp [step, add, h, hn]

/-- any operation sequence containing an encode ends in a state that refuses `add`, unchanged -/
theorem final_after_any_sequence (m : Mac B) (h : m.nonce.proof = true) (pre post : List (Op B))
    (items : List (AddItem B)) :
    let s := (post.foldl step (encodeState (pre.foldl step m)))
    add s items = (s, some .finalizedProof) := by
  intro s
  have hp : ∀ (ops : List (Op B)) (x : Mac B), (ops.foldl step x).nonce = x.nonce := by
    intro ops
    induction ops with
    | nil => intro x; rfl
    | cons o os ih => intro x; simp only [List.foldl_cons, ih, proof_stays_proof]
  have h1 : (pre.foldl step m).nonce.proof = true := by rw [hp]; exact h
  have hs : s = encodeState (pre.foldl step m) := by
    show post.foldl step _ = _
    have hfin := encoded_not_new _ h1
    have hpr : (encodeState (pre.foldl step m)).nonce.proof = true := by
      unfold encodeState; split <;> simp [h1]
    generalize encodeState (pre.foldl step m) = e at hfin hpr
    induction post with
    | nil => rfl
    | cons o os ih => simp only [List.foldl_cons, final_is_stable e hpr hfin o, ih]
  rw [hs]
  exact final_after_encode _ _ h1

/-- finalisation happens exactly once: encoding is idempotent on the state, so the encoded form is stable -/
theorem encode_idempotent (m : Mac B) : encodeState (encodeState m) = encodeState m := by
  unfold encodeState
  by_cases h : (m.nonce.proof && m.newProof) = true
  · simp [h]
  · simp [h]

theorem finalize_once (m : Mac B) (h : m.nonce.proof = true) (hn : m.newProof = true) (n : Nat) :
    (Nat.repeat encodeState (n + 1) m).tail = finalize m.tail := by
  induction n with
  | zero => simp [Nat.repeat, encodeState, h, hn]
  | succ k ih =>
    have : Nat.repeat encodeState (k + 1 + 1) m = encodeState (Nat.repeat encodeState (k + 1) m) := rfl
    rw [this]
    have hfix : ∀ j, Nat.repeat encodeState (j + 1) m = encodeState m := by
      intro j
      induction j with
      | zero => rfl
      | succ j ihj =>
        show encodeState (Nat.repeat encodeState (j + 1) m) = _
        rw [ihj, encode_idempotent]
    rw [hfix k, encode_idempotent, ← hfix k]; exact ih

/-- the bytes of repeated encodes/clones are equal (concrete instance) -/
theorem encoded_bytes_stable (m : Mac Bytes) :
    (Concrete.encode (Concrete.encode m).1).2 = (Concrete.encode m).2 := by
  unfold Concrete.encode
  simp [encode_idempotent]

/-- a decoded copy of a proof refuses `add` -/
theorem decoded_proof_refuses_add (w : WireMac) (items : List (AddItem Bytes)) (h : w.nonce.proof = true) :
    add (Concrete.ofWire w) items = (Concrete.ofWire w, some .finalizedProof) := by
  unfold add Concrete.ofWire Concrete.ofNonce
  simp [h]

/-- a proof that has not been finalised cannot be verified -/
theorem unfinalised_unverifiable (k : B) (m : Mac B) (dms : List (Mac B)) (pids : List B) (ta : Bool)
    (tr : Bytes → List B) (h : m.nonce.proof = true) (hn : m.newProof = true) :
    verifyWith k m dms pids ta tr = .error .unfinalized := by
  unfold verifyWith; simp [h, hn]

/-- verification finalises its recomputed chain before comparing: what is accepted as a proof has
the finalised chain as its tail -/
theorem verified_proof_is_finalised (k : B) (m : Mac B) (dms : List (Mac B)) (tr : Bytes → List B)
    (cs : List (Cav B)) (h : m.nonce.proof = true) (hv : verify k m dms tr = .ok cs) :
    ∃ t, chain (macNonce k m.nonce) m.cavs = some t ∧ ctEq (finalize t) m.tail = true := by
  obtain ⟨_, _, t, hc, he, _⟩ := (verifyWith_ok_iff k m dms [] true tr cs).mp hv
  exact ⟨t, hc, by simpa [finIf, h] using he⟩

/-- the WHOLE state of an encoded proof (caveats, tail, flags) is a fixed point of every later
operation sequence — not only "add is refused": nothing about it can change any more -/
theorem encoded_state_frozen (m : Mac B) (h : m.nonce.proof = true) (ops : List (Op B)) :
    ops.foldl step (encodeState m) = encodeState m := by
  have hfin := encoded_not_new m h
  have hpr : (encodeState m).nonce.proof = true := by
    unfold encodeState; split <;> simp [h]
  generalize encodeState m = e at hfin hpr
  induction ops with
  | nil => rfl
  | cons o os ih => simp only [List.foldl_cons, final_is_stable e hpr hfin o, ih]

/-- hence the bytes a holder can produce from an encoded proof are always the same bytes, whatever
they try in between -/
theorem encoded_bytes_frozen (m : Mac Bytes) (h : m.nonce.proof = true) (ops : List (Op Bytes)) :
    (Concrete.encode (ops.foldl step (encodeState m))).2 = (Concrete.encode m).2 := by
  rw [encoded_state_frozen m h ops]
  unfold Concrete.encode
  simp [encode_idempotent]

/-! ### non-vacuity (symbolic instance) -/

section examples
open Symbolic Symbolic.Term

/-- a fresh discharge proof under key `atom 11` -/
def f0 : Mac Term := mint (atom 11) (lit [7]) [9] (atom 14) true
def f1 : Mac Term := (add f0 [.plain (.confineUser 5)]).1

example : f1.cavs = [.confineUser 5] := by rfl
example := encoded_not_new f1 rfl
example : add (encodeState f1) [.plain (.isUser 1)] = (encodeState f1, some .finalizedProof) :=
  final_after_encode f1 _ rfl
example := final_is_stable (encodeState f1) rfl rfl (.add [.plain (.isUser 1)])
example := final_after_any_sequence f0 rfl [.add [.plain (.confineUser 5)]] [.encode, .add [.plain (.isUser 2)], .encode]
  [.plain (.isUser 1)]
example := finalize_once f1 rfl rfl 3
example := encoded_state_frozen f1 rfl [.add [.plain (.isUser 2)], .encode, .add []]
example : (encodeState (encodeState f1)).tail = finalize f1.tail := by rfl
example : verify (atom 11) f1 [] (fun _ => []) = .error .unfinalized := unfinalised_unverifiable _ _ _ _ _ _ rfl rfl
example : verify (atom 11) (encodeState f1) [] (fun _ => []) = .ok [.confineUser 5] := by rfl
example := verified_proof_is_finalised (atom 11) (encodeState f1) [] (fun _ => []) _ rfl (by rfl)
example := proof_stays_proof f1 (.add [.plain (.isUser 1)])
example := decoded_proof_refuses_add ⟨⟨[1], [2], 1, true⟩, [], [], []⟩ [.plain (.isUser 1)] rfl

end examples

end Macaroon.Props.C08

#print axioms Macaroon.Props.C08.encoded_not_new
#print axioms Macaroon.Props.C08.final_after_encode
#print axioms Macaroon.Props.C08.proof_stays_proof
#print axioms Macaroon.Props.C08.final_is_stable
#print axioms Macaroon.Props.C08.final_after_any_sequence
#print axioms Macaroon.Props.C08.encode_idempotent
#print axioms Macaroon.Props.C08.finalize_once
#print axioms Macaroon.Props.C08.encoded_bytes_stable
#print axioms Macaroon.Props.C08.decoded_proof_refuses_add
#print axioms Macaroon.Props.C08.unfinalised_unverifiable
#print axioms Macaroon.Props.C08.verified_proof_is_finalised
#print axioms Macaroon.Props.C08.encoded_state_frozen
#print axioms Macaroon.Props.C08.encoded_bytes_frozen
