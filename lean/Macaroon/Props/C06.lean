/-
C06 — a bound discharge works only with the token it was bound to.

Generic theorems about binding ids and binding caveats in `verifyWith`/`verifyFlat`
(Token/Macaroon.lean); `bound_passes_descendants` for every `LawfulCrypto B`.  The converse
(`bound_fails_elsewhere`: a satisfied binding identifies a prefix of the presented token, so
ancestors, siblings and unrelated tokens fail) needs the digest to be injective and is proved for
the symbolic instance in Props/Symbolic.lean (`bound_fails_elsewhere`, `bound_fails_ancestor`, and, through
the verifier, `bound_only_with_descendant` / `bound_accepted_only_with_descendant`).  Tie: family `bind`.
-/
import Macaroon.Lemmas.Token
import Macaroon.Crypto.Symbolic

namespace Macaroon.Props.C06
open Macaroon Macaroon.Crypto Macaroon.Lemmas
variable {B : Type} [Crypto B]

/-- the ids offered to discharges while verifying `m`: the digest of the tail after every prefix
of its caveat list (0, 1, …, all caveats), unfinalised -/
def offeredIds (k : B) (m : Mac B) : List B :=
  digest (macNonce k m.nonce) :: (tailsAfter (macNonce k m.nonce) m.cavs).map digest

/-- `binding_ids`: a discharge is accepted for a caveat of `m` only through `firstDischarge` run
with exactly those ids -/
theorem binding_ids (k : B) (m : Mac B) (dms : List (Mac B)) (tr : Bytes → List B) (cs : List (Cav B))
    (hv : verify k m dms tr = .ok cs) :
    ∃ css, (pendOf (byTicket dms) (macNonce k m.nonce) m.cavs).mapM
        (fun p => firstDischarge (offeredIds k m) true tr p.key p.ds) = some css ∧
      cs = m.cavs.filter (kept true) ++ css.flatten := by
  obtain ⟨_, _, t, _, _, css, hm, hcs⟩ := (verifyWith_ok_iff k m dms [] true tr cs).mp hv
  exact ⟨css, hm, hcs⟩

/-- when a discharge carries several bindings all of them must hold -/
theorem all_bindings_required (key : B) (d : Mac B) (ids : List B) (ta : Bool) (cs : List (Cav B))
    (hv : verifyFlat key d ids ta = .ok cs) :
    ∀ id, Cav.bind id ∈ d.cavs → ∃ bid ∈ ids, hasPrefix bid id = true := by
  obtain ⟨_, hok, _⟩ := (verifyFlat_ok_iff key d ids ta cs).mp hv
  intro id hm
  have key : ∀ (t : B) (cs : List (Cav B)), Cav.bind id ∈ cs →
      walkOK d.nonce.proof (fun _ => none) ids t cs = true → ids.any (fun bid => hasPrefix bid id) = true := by
    intro t cs
    induction cs generalizing t with
    | nil => simp
    | cons c cs ih =>
      intro hm hw
      simp only [walkOK, Bool.and_eq_true] at hw
      simp only [List.mem_cons] at hm
      rcases hm with rfl | hm
      · simpa [stepOK, tpFields?, bindId?] using hw.1
      · cases hmc : macCav t c with
        | none => simp [hmc] at hw
        | some t' => simp only [hmc] at hw; exact ih t' hm hw.2
  simpa using key _ _ hm hok

/-- a token that carries a binding but is presented as a permission token is rejected
(no parent ids exist at top level — even for an empty binding caveat) -/
theorem binding_at_top_level_rejected (k : B) (m : Mac B) (dms : List (Mac B)) (tr : Bytes → List B)
    (id : B) (hm : Cav.bind id ∈ m.cavs) : ∀ cs, verify k m dms tr ≠ .ok cs := by
  intro cs hv
  obtain ⟨_, hok, _⟩ := (verifyWith_ok_iff k m dms [] true tr cs).mp hv
  have key : ∀ (t : B) (cs : List (Cav B)), Cav.bind id ∈ cs →
      walkOK m.nonce.proof (byTicket dms) [] t cs = false := by
    intro t cs
    induction cs generalizing t with
    | nil => simp
    | cons c cs ih =>
      intro hm
      simp only [List.mem_cons] at hm
      rcases hm with rfl | hm
      · simp [walkOK, stepOK, tpFields?, bindId?]
      · simp only [walkOK]
        cases macCav t c with
        | none => simp
        | some t' => simp [ih t' hm]
  rw [key _ _ hm] at hok; cases hok

/-- [lawful] a discharge bound to `x` (`Bind` adds `bindId x.tail`) passes the binding test when
presented with `x` itself or any further-attenuated descendant `y` of it: `x`'s tail is the tail
after a prefix of `y`'s caveats, so its digest is among the offered ids -/
theorem bound_passes_descendants [LawfulCrypto B] (k : B) (x y : Mac B) (more : List (Cav B))
    (hn : y.nonce = x.nonce) (hc : y.cavs = x.cavs ++ more)
    (hx : chain (macNonce k x.nonce) x.cavs = some x.tail)
    (hy : ∃ t, chain (macNonce k y.nonce) y.cavs = some t) :
    (offeredIds k y).any (fun bid => hasPrefix bid (bindId x.tail)) = true := by
  have hmem : digest x.tail ∈ offeredIds k y := by
    unfold offeredIds
    rw [hn, hc]
    cases hxc : x.cavs with
    | nil =>
      rw [hxc] at hx; simp only [chain, Option.some.injEq] at hx
      rw [← hx]; simp
    | cons c cs =>
      obtain ⟨t, ht⟩ := hy
      rw [hn, hc, chain_append, hx] at ht
      rw [← hxc, tailsAfter_append _ _ _ _ hx]
      have : x.tail ∈ tailsAfter (macNonce k x.nonce) x.cavs := by
        rw [hxc] at hx ⊢
        exact last_mem _ _ _ _ hx
      simp only [List.map_append, List.mem_cons, List.mem_append, List.mem_map]
      exact Or.inr (Or.inl ⟨x.tail, this, rfl⟩)
  exact List.any_eq_true.mpr ⟨_, hmem, LawfulCrypto.hasPrefix_bindId _⟩
where
  last_mem : ∀ (t : B) (c : Cav B) (cs : List (Cav B)) (r : B), chain t (c :: cs) = some r →
      r ∈ tailsAfter t (c :: cs)
    | t, c, [], r, h => by
      simp only [chain] at h
      cases hm : macCav t c with
      | none => simp [hm] at h
      | some t' => simp [hm, chain] at h; simp [tailsAfter, hm, h]
    | t, c, c' :: cs, r, h => by
      simp only [chain] at h
      cases hm : macCav t c with
      | none => simp [hm] at h
      | some t' =>
        simp only [hm, Option.bind_some] at h
        have := last_mem t' c' cs r h
        simp only [tailsAfter, hm]
        exact List.mem_cons_of_mem _ this

/-- the ids offered while verifying `x` are still offered while verifying any further-attenuated
descendant `y` (same nonce, `x`'s caveats as a prefix): attenuation only ADDS ids, so it cannot
invalidate a binding made earlier.  No lawfulness needed: it is a fact about the chain walk -/
theorem offered_ids_grow (k : B) (x y : Mac B) (more : List (Cav B))
    (hn : y.nonce = x.nonce) (hc : y.cavs = x.cavs ++ more)
    (hx : ∃ t, chain (macNonce k x.nonce) x.cavs = some t) :
    ∀ id ∈ offeredIds k x, id ∈ offeredIds k y := by
  obtain ⟨t, ht⟩ := hx
  intro id hid
  unfold offeredIds at hid ⊢
  rw [hn, hc, tailsAfter_append _ _ _ _ ht]
  simp only [List.mem_cons, List.map_append, List.mem_append] at hid ⊢
  rcases hid with h | h
  · exact Or.inl h
  · exact Or.inr (Or.inl h)

/-- hence every binding caveat that passes the binding test against `x` passes it against every
descendant of `x` — whatever the binding id is (not only `bindId x.tail`) -/
theorem binding_survives_attenuation (k : B) (x y : Mac B) (more : List (Cav B)) (id : B)
    (hn : y.nonce = x.nonce) (hc : y.cavs = x.cavs ++ more)
    (hx : ∃ t, chain (macNonce k x.nonce) x.cavs = some t)
    (hb : (offeredIds k x).any (fun bid => hasPrefix bid id) = true) :
    (offeredIds k y).any (fun bid => hasPrefix bid id) = true := by
  obtain ⟨bid, hm, hp⟩ := List.any_eq_true.mp hb
  exact List.any_eq_true.mpr ⟨bid, offered_ids_grow k x y more hn hc hx bid hm, hp⟩

/-! ### non-vacuity (symbolic instance) -/

section examples
open Symbolic Symbolic.Term

def b0 : Mac Term := mint (atom 0) (lit [1]) [] (atom 1) false
def btk : Term := sealTicket (atom 5) (atom 12) (atom 11) [.isUser 3]
def b1 : Mac Term := (add b0 [.new3p [9] btk (atom 11) (atom 13)]).1
def b2 : Mac Term := (add b1 [.plain (.action 1)]).1
def bd : Mac Term := mint (atom 11) btk [9] (atom 14) true
/-- bound to `b1`; bound to `b1` AND to `b2` -/
def bd1 : Mac Term := encodeState (bindTo bd b1).1
def bd12 : Mac Term := encodeState (bindTo (bindTo bd b1).1 b2).1

example : verify (atom 0) b2 [bd1] (fun _ => []) = .ok [.action 1] := by rfl
example : verify (atom 0) b1 [bd12] (fun _ => []) = .error .dischargeFailed := by rfl
example : verify (atom 0) b2 [bd12] (fun _ => []) = .ok [.action 1] := by rfl
example := binding_ids (atom 0) b2 [bd1] (fun _ => []) _ (by rfl)
example := all_bindings_required (atom 11) bd12 (offeredIds (atom 0) b2) true [] (by rfl)
example := binding_at_top_level_rejected (atom 11) bd1 [] (fun _ => []) (bindId b1.tail) (by decide)
example : verify (atom 11) bd1 [] (fun _ => []) = .error .boundElsewhere := by rfl
example := bound_passes_descendants (atom 0) b1 b2 [.action 1] rfl (by rfl) (by rfl) ⟨_, by rfl⟩
example := offered_ids_grow (atom 0) b1 b2 [.action 1] rfl (by rfl) ⟨_, by rfl⟩
example := binding_survives_attenuation (atom 0) b1 b2 [.action 1] (bindId b1.tail) rfl (by rfl) ⟨_, by rfl⟩ (by rfl)

end examples

end Macaroon.Props.C06

#print axioms Macaroon.Props.C06.binding_ids
#print axioms Macaroon.Props.C06.all_bindings_required
#print axioms Macaroon.Props.C06.binding_at_top_level_rejected
#print axioms Macaroon.Props.C06.bound_passes_descendants
#print axioms Macaroon.Props.C06.offered_ids_grow
#print axioms Macaroon.Props.C06.binding_survives_attenuation
