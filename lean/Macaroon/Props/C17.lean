/-
C17 — scope helpers never claim more than clearing would grant.

Property theorems only.  Model functions: `Flyio.organizationScope`, `Flyio.appScope`,
`Flyio.clusterScope`, `Flyio.appsAllowing`, `Flyio.expiration` (Macaroon/Flyio/Scopes.lean, one per
Go function of flyio/caveat_set.go, macaroon.go, bundle/token.go) over the unchanged clearing model
(`validate`, `prohibits`, `getCaveats`); tie: family `scope`.

All statements range over every caveat set of the registered universe, wrappers (conditionals)
nested to any depth.  `Nested c cs` = the caveat `c` occurs in `cs` at top level or inside wrappers.
"A request naming app `id`" is any request whose app getter returns `id` (any other fields, any
action, any request type); likewise for organizations and clusters.
-/
import Macaroon.Lemmas.Scopes
import Macaroon.Lemmas.ScopesOrder

namespace Macaroon.Props.C17
open Macaroon Macaroon.Flyio Macaroon.Lemmas
variable {B : Type}

/-! ### what the helpers look at, and why a nested caveat counts -/

/-- `GetCaveats[T]` returns exactly the caveats of type `T` occurring anywhere in the set -/
theorem getCaveats_finds_nested (p : Cav B → Bool) (cs : List (Cav B)) (c : Cav B) :
    c ∈ getCaveats p cs ↔ p c = true ∧ Nested c cs :=
  mem_getCaveats p cs c

/-- Key lemma.  A caveat that definitely denies a request (prohibits it, and not with "resource
unspecified"), nested inside any depth of conditionals, makes the whole set deny that request:
a conditional never swallows such a denial. -/
theorem nested_denial_denies_set {c : Cav B} {cs : List (Cav B)} (a : Access) (hn : Nested c cs)
    (hna : c.isAttestation = false) (hd : prohibits c a ≠ [] ∧ (prohibits c a).is .resUnspecified = false) :
    validate cs [a] ≠ [] :=
  Lemmas.nested_denial_denies_set a hn hna hd

/-! ### organization scope -/

/-- `OrganizationScope` answered `o`.  Then (1) every organization caveat anywhere in the set
permits organization `o` at the empty action; (2) if `o` is a real id (not the wildcard 0), every
request naming another organization — whatever else it says — is denied by the whole set;
(3) if `o` is the wildcard 0 ("any organization"), every organization clears every organization
caveat at the empty action.  An error claims nothing. -/
theorem orgScope_sound (cs : List (Cav B)) (o : UInt64) (h : organizationScope cs = .ok o) :
    (∀ c, Nested c cs → isOrg c = true → ∀ a : Access, a.org = some (some o) → a.action = some Action.none →
        prohibits c a = []) ∧
    (o ≠ 0 → ∀ (a : Access) (o' : UInt64), a.org = some (some o') → o' ≠ o → validate cs [a] ≠ []) ∧
    (o = 0 → ∀ c, Nested c cs → isOrg c = true → ∀ (a : Access) (o' : UInt64), a.org = some (some o') →
        a.action = some Action.none → prohibits c a = []) :=
  Lemmas.orgScope_sound cs o h

/-! ### app scope -/

/-- `AppScope`.  A list `L` was returned: (1) every app id left out is denied by the whole set for
every request naming it; (2) every id in `L` clears every `Apps` caveat anywhere in the set at the
empty action.  "Unrestricted" (nil) was returned: (3) every app id clears every `Apps` caveat
anywhere in the set at the empty action (each of them is a lone wildcard entry, or there is none). -/
theorem appScope_sound (cs : List (Cav B)) :
    (∀ L, appScope cs = some L →
      (∀ id, id ∉ L → ∀ a : Access, a.app = some (some id) → validate cs [a] ≠ []) ∧
      (∀ id ∈ L, ∀ rs, Nested (.apps rs : Cav B) cs → ∀ a : Access, a.app = some (some id) →
          a.action = some Action.none → prohibits (.apps rs : Cav B) a = [])) ∧
    (appScope cs = none →
      ∀ rs, Nested (.apps rs : Cav B) cs → (∃ m, rs = [((0 : UInt64), m)]) ∧
        ∀ id, ∀ a : Access, a.app = some (some id) → a.action = some Action.none →
          prohibits (.apps rs : Cav B) a = []) :=
  ⟨fun L h => appScope_some_sound cs L h, fun h => appScope_none_sound cs h⟩

/-! ### cluster scope (F11 repaired) -/

/-- `ClusterScope` (after the repair of F11 it mirrors `AppScope`).  A list `L` was returned:
(1) every cluster id left out is denied by the whole set for every request naming it; (2) every id
in `L` clears every `Clusters` caveat anywhere in the set at the empty action.  "Unrestricted" (nil)
was returned: (3) every cluster id clears every `Clusters` caveat anywhere in the set at the empty
action (each of them is a lone wildcard entry, or there is none). -/
theorem clusterScope_sound (cs : List (Cav B)) :
    (∀ L, clusterScope cs = some L →
      (∀ id, id ∉ L → ∀ a : Access, a.cluster = some (some id) → validate cs [a] ≠ []) ∧
      (∀ id ∈ L, ∀ rs, Nested (.clusters rs : Cav B) cs → ∀ a : Access, a.cluster = some (some id) →
          a.action = some Action.none → prohibits (.clusters rs : Cav B) a = [])) ∧
    (clusterScope cs = none →
      ∀ rs, Nested (.clusters rs : Cav B) cs → (∃ m, rs = [(([] : Bytes), m)]) ∧
        ∀ id, ∀ a : Access, a.cluster = some (some id) → a.action = some Action.none →
          prohibits (.clusters rs : Cav B) a = []) :=
  Lemmas.clusterScope_sound cs

/-- the request `&flyio.Access{OrgID: 1, Feature: "litefs-cloud", Cluster: "abc", Action: read}` -/
def f11Request : Req :=
  { Req.zero with action := Action.read, org := some 1, feature := some featureLFSC, cluster := some [97, 98, 99] }

/-- F11 (repaired), the behaviour of the code before the repair kept as a negative example:
`clusterScopePreFix` (no wildcard case) returned the list `[""]` for the set `[Clusters{"": all}]`;
cluster `"abc"` is left out of it, yet a well-formed request for cluster `"abc"` clears the set —
the clause "ids left out would not clear" failed. -/
theorem preFix_clusterScope_left_out_may_clear :
    ∃ (cs : List (Cav Bytes)) (L : List Bytes) (id : Bytes) (a : Access),
      clusterScopePreFix cs = some L ∧ id ∉ L ∧ a.cluster = some (some id) ∧ validate cs [a] = [] := by
  refine ⟨[.clusters [([], Action.all)]], [[]], [97, 98, 99], f11Request.toAccess 0 0, ?_, ?_, rfl, ?_⟩
  · simp [clusterScopePreFix, getCaveats, unwrapGet, isClusters, clusterKeys, sortDedup, insertSorted, clears,
      validate, validateAccess, Cav.isAttestation, prohibits, viaGetter, Req.toAccess, clusterReq, Req.zero,
      Flyio.validate, cnt, ResSet.prohibitsStr, ResSet.prohibits, ResSet.mixedWildcard, ResSet.matching,
      ResSet.perm, Action.subset]
  · simp
  · simp [validate, validateAccess, Cav.isAttestation, prohibits, viaGetter, Req.toAccess, f11Request, Req.zero,
      Flyio.validate, cnt, ResSet.prohibitsStr, ResSet.prohibits, ResSet.mixedWildcard, ResSet.matching,
      ResSet.perm, Action.subset, Action.all, Action.read] <;> decide

/-- … and on that same set the repaired helper answers "unrestricted" -/
theorem repaired_clusterScope_on_f11_witness :
    clusterScope ([.clusters [([], Action.all)]] : List (Cav Bytes)) = none := by
  simp [clusterScope, getCaveats, unwrapGet, isClusters, clusterKeys, sortDedup, insertSorted, clears,
    validate, validateAccess, Cav.isAttestation, prohibits, viaGetter, Req.toAccess, clusterReq, Req.zero,
    Flyio.validate, cnt, ResSet.prohibitsStr, ResSet.prohibits, ResSet.mixedWildcard, ResSet.matching,
    ResSet.perm, Action.subset]

/-! ### order: sorted results, permuted caveat sets -/

/-- the lists the helpers return are strictly ascending in Go's order (`<` on `uint64`, bytewise on
strings) — hence without duplicates and independent of Go's map iteration order -/
theorem scope_sorted (cs : List (Cav B)) :
    (∀ L, appScope cs = some L → L.Pairwise fun a b => a < b) ∧
    (∀ L, clusterScope cs = some L → L.Pairwise fun a b => Bytes.lt a b = true) ∧
    (∀ act s n o L, appsAllowing cs act s n = .ok (o, some L) → L.Pairwise fun a b => a < b) := by
  refine ⟨fun L h => ?_, fun L h => clusterScope_sorted cs L h, fun act s n o L h => ?_⟩
  · exact (appScope_sorted cs L h).imp (by intro a b hab; simpa [ltU64] using hab)
  · exact (appsAllowing_sorted cs act s n o L h).imp (by intro a b hab; simpa [ltU64] using hab)

/-- the order in which the caveats stand in the set does not matter for `AppScope` and
`ClusterScope` (nor, hence, for where a caveat is nested relative to its siblings) -/
theorem scope_perm (cs cs' : List (Cav B)) (h : cs.Perm cs') :
    appScope cs = appScope cs' ∧ clusterScope cs = clusterScope cs' :=
  ⟨appScope_perm h, clusterScope_perm h⟩

/-- `OrganizationScope` answers with the id of the FIRST organization caveat found, so its SUCCESS
can depend on the order (boundary example below: a wildcard caveat in front of a specific one makes
it fail; an error claims nothing); but two successful answers on permuted sets are the same id -/
theorem orgScope_perm_agree (cs cs' : List (Cav B)) (h : cs.Perm cs') (o o' : UInt64)
    (h1 : organizationScope cs = .ok o) (h2 : organizationScope cs' = .ok o') : o = o' :=
  Lemmas.orgScope_perm_agree h o o' h1 h2

/-- what the partial clause "every id returned clears" amounts to for `OrganizationScope`: the
request "organization `o`, no action" clears the ORGANIZATION caveats of the set (found at any depth)
— the helper deliberately disregards every other caveat -/
theorem orgScope_relative (cs : List (Cav B)) (o : UInt64) (h : organizationScope cs = .ok o) :
    validate (getCaveats isOrg cs) [(orgReq o).toAccess 0 0] = [] := by
  obtain ⟨c, rest, heq, _, hv⟩ := orgScope_ok cs o h
  rw [heq]; exact hv

/-! ### apps allowing an action -/

/-- `AppsAllowing cs action` at wall-clock instant `(s, n)` answered `(o, r)` without error.  Then
`o` is the organization scope, and with `req id = &Access{OrgID: o, AppID: id, Action: action}`:
`r = nil` ("any app of the organization"): `req id` clears the whole set for every app id;
`r = L`: `L` holds exactly the app ids for which `req id` clears the whole set — each listed id
clears, each id left out is denied.  An error claims nothing. -/
theorem appsAllowing_sound (cs : List (Cav B)) (act : Action) (s : Int) (n : Nat) (o : UInt64)
    (r : Option (List UInt64)) (h : appsAllowing cs act s n = .ok (o, r)) :
    organizationScope cs = .ok o ∧
    (r = none → ∀ id, validate cs [(allowReq o id act).toAccess s n] = []) ∧
    (∀ L, r = some L → ∀ id, id ∈ L ↔ validate cs [(allowReq o id act).toAccess s n] = []) :=
  Lemmas.appsAllowing_sound cs act s n o r h

/-! ### expiry -/

/-- the expiry is `maxTime` or the end of a validity window that occurs somewhere in the set -/
theorem expiration_is_window_end (cs : List (Cav B)) :
    expiration cs = (maxTimeSec, maxTimeNsec) ∨
    ∃ nb na, Nested (.validityWindow nb na : Cav B) cs ∧ expiration cs = (na.toInt, 0) :=
  expiration_cases cs

/-- … and it is the earliest such end: it is not after the end of any window in the set (nested
ones included) whose end a `time.Time` can hold -/
theorem expiration_is_earliest (cs : List (Cav B)) (nb na : Int64)
    (hn : Nested (.validityWindow nb na : Cav B) cs) (h : na.toInt < maxTimeSec) :
    GoTime.after (expiration cs).1 (expiration cs).2 na.toInt 0 = false :=
  expiration_le_window cs nb na hn h

/-- `(*Macaroon).Expiration`: at any instant after the computed expiry the caveat set clears
nothing — every request (of any type, naming anything) is denied, also when the window that
expired sits inside conditionals.  `hrep`: the request instant is one a `time.Time` can hold
(nothing lies after `maxTime`, which is what the helper answers when no window bounds the token). -/
theorem expiration_sound (unsafeCaveats : List (Cav B)) (r : Access)
    (hrep : GoTime.after r.nowSec r.nowNsec maxTimeSec maxTimeNsec = false)
    (h : GoTime.after r.nowSec r.nowNsec (tokenExpiration unsafeCaveats).1 (tokenExpiration unsafeCaveats).2 = true) :
    validate unsafeCaveats [r] ≠ [] :=
  Lemmas.expiration_sound unsafeCaveats r hrep h

/-- `(*VerifiedMacaroon).Expiration`: the same over the verified caveats -/
theorem verifiedExpiration_sound (caveats : List (Cav B)) (r : Access)
    (hrep : GoTime.after r.nowSec r.nowNsec maxTimeSec maxTimeNsec = false)
    (h : GoTime.after r.nowSec r.nowNsec (verifiedExpiration caveats).1 (verifiedExpiration caveats).2 = true) :
    validate caveats [r] ≠ [] :=
  Lemmas.expiration_sound caveats r hrep h

/-- a validity window never answers "unspecified", so a conditional that contains one always takes
its if-branch (it never falls back to its else-mask), for every request -/
theorem window_in_conditional_always_applies (ifs : CavList B) (nb na : Int64) (a : Access)
    (h : Cav.validityWindow nb na ∈ ifs.toList) :
    (prohibits (.validityWindow nb na : Cav B) a).is .resUnspecified = false ∧ (ifLoop ifs a).2 = true :=
  ⟨validityWindow_never_unspecified nb na a, window_in_conditional_applies ifs nb na a h⟩

/-! ### non-vacuity -/

-- an organization caveat nested in a conditional is found; conflicting ids make the helper fail
example : organizationScope ([.organization 5 31, .ifPresent false (.cons (.organization 0 1) .nil) 0] : List (Cav Bytes))
    = .ok 5 := rfl
example : organizationScope ([.organization 5 31, .organization 6 31] : List (Cav Bytes)) = .error [.forResource] := rfl
example : Nested (.organization 0 1 : Cav Bytes) [.organization 5 31, .ifPresent false (.cons (.organization 0 1) .nil) 0] :=
  .inside (List.mem_cons_of_mem _ (List.mem_cons_self ..)) (.here (List.mem_cons_self ..))
-- app scope: intersection of two caveats, one of them nested; wildcard; nothing left
example : appScope ([.apps [(1, 31), (2, 1)], .ifPresent false (.cons (.apps [(2, 31), (3, 31)]) .nil) 0] : List (Cav Bytes))
    = some [2] := by decide
example : appScope ([.apps [(0, 31)]] : List (Cav Bytes)) = none := by decide
example : appScope ([.apps [(1, 31)], .apps [(2, 31)]] : List (Cav Bytes)) = some [] := by decide
example : clusterScope ([.clusters [([98], 31), ([97], 1)]] : List (Cav Bytes)) = some [[97], [98]] := by
  simp [clusterScope, getCaveats, unwrapGet, isClusters, clusterKeys, sortDedup, insertSorted, Bytes.lt, clears,
    validate, validateAccess, Cav.isAttestation, prohibits, viaGetter, Req.toAccess, clusterReq, Req.zero,
    Flyio.validate, cnt, ResSet.prohibitsStr, ResSet.prohibits, ResSet.mixedWildcard, ResSet.matching,
    ResSet.perm, ResSet.matchEq, Action.subset]
example : clusterScope ([] : List (Cav Bytes)) = none := by decide
-- apps allowing: app 2 is in scope but only readable
example : appsAllowing ([.organization 1 31, .apps [(1, 31), (2, 1)]] : List (Cav Bytes)) Action.write 0 0
    = .ok (1, some [1]) := rfl
example : appsAllowing ([.organization 1 31] : List (Cav Bytes)) Action.write 0 0 = .ok (1, none) := rfl
-- expiry: the earliest end, a nested window included; unbounded windows are skipped
example : expiration ([.validityWindow 0 100, .ifPresent false (.cons (.validityWindow 0 50) .nil) 0] : List (Cav Bytes))
    = (50, 0) := by decide
example : expiration ([.validityWindow 0 9223372036854775807] : List (Cav Bytes)) = (maxTimeSec, maxTimeNsec) := by decide
example : GoTime.after 51 0 50 0 = true ∧ GoTime.after 51 0 maxTimeSec maxTimeNsec = false := by decide
-- order: a permutation (hypothesis of `scope_perm` / `orgScope_perm_agree`), and the boundary of the
-- latter: with the wildcard organization caveat in front the helper fails, behind it succeeds
example : ([.apps [(1, 31)], .organization 5 31] : List (Cav Bytes)).Perm [.organization 5 31, .apps [(1, 31)]] :=
  List.Perm.swap _ _ _
example : organizationScope ([.organization 5 31, .organization 0 31] : List (Cav Bytes)) = .ok 5 ∧
    organizationScope ([.organization 0 31, .organization 5 31] : List (Cav Bytes)) = .error [.forResource] := ⟨rfl, rfl⟩
example : appScope ([.apps [(3, 31), (1, 31), (2, 1)]] : List (Cav Bytes)) = some [1, 2, 3] := by decide

end Macaroon.Props.C17

#print axioms Macaroon.Props.C17.getCaveats_finds_nested
#print axioms Macaroon.Props.C17.nested_denial_denies_set
#print axioms Macaroon.Props.C17.orgScope_sound
#print axioms Macaroon.Props.C17.appScope_sound
#print axioms Macaroon.Props.C17.clusterScope_sound
#print axioms Macaroon.Props.C17.preFix_clusterScope_left_out_may_clear
#print axioms Macaroon.Props.C17.repaired_clusterScope_on_f11_witness
#print axioms Macaroon.Props.C17.appsAllowing_sound
#print axioms Macaroon.Props.C17.expiration_is_window_end
#print axioms Macaroon.Props.C17.expiration_is_earliest
#print axioms Macaroon.Props.C17.expiration_sound
#print axioms Macaroon.Props.C17.verifiedExpiration_sound
#print axioms Macaroon.Props.C17.window_in_conditional_always_applies
#print axioms Macaroon.Props.C17.scope_sorted
#print axioms Macaroon.Props.C17.scope_perm
#print axioms Macaroon.Props.C17.orgScope_perm_agree
#print axioms Macaroon.Props.C17.orgScope_relative
