/-
C10 — Fly.io caveats and request well-formedness follow the documented rules.

Property theorems only.  Model functions: `prohibits` per caveat kind, `Flyio.validate`
(= `(*flyio.Access).Validate`), `Flyio.permittedRoles` (= `GetPermittedRoles`); tie: family `flyio`,
and for the tables the model carries (`MemberFeatures`, role bits, action bits, the litefs-cloud feature
name) the constants regenerated from /repo on every run (`tables_match_generated`).
-/
import Macaroon.Lemmas.Monotone
import Macaroon.Caveat.Spec
import Macaroon.Generated.Consts

namespace Macaroon.Props.C10
open Macaroon Macaroon.Lemmas
variable {B : Type}

/-- organization: the id matches or is the wildcard 0, and the action is within the mask -/
theorem organization_iff (id : UInt64) (mask : Action) (a : Access) :
    prohibits (.organization id mask : Cav B) a = [] ↔
      ∃ act oid, a.action = some act ∧ a.org = some (some oid) ∧ (id = 0 ∨ id = oid) ∧ act.subset mask = true := by
  unfold prohibits
  cases ho : a.org with
  | none => simp
  | some o =>
    cases ha : a.action with
    | none => simp
    | some act =>
      cases o with
      | none => simp
      | some oid =>
        by_cases h0 : id = 0 <;> by_cases h1 : id = oid <;> by_cases hs : act.subset mask = true <;> simp [h0, h1, hs]
        all_goals (first | (subst h0; exact h1) | skip)
        all_goals simp_all

/-- a resource-set caveat read through its getter: the request must expose the action and name
the resource, and then the rule of C09 (`resset_permits_iff`) applies to that id -/
theorem viaGetter_iff {K} (g : Option (Option K)) (action : Option Action) (k : Option K → Action → Errs)
    (hk : ∀ act, k none act ≠ []) :
    viaGetter g action k = [] ↔ ∃ act id, action = some act ∧ g = some (some id) ∧ k (some id) act = [] := by
  unfold viaGetter
  cases g with
  | none => simp
  | some o =>
    cases action with
    | none => simp
    | some act =>
      cases o with
      | none => simpa using hk act
      | some id => simp

theorem resource_caveats_iff (a : Access) :
    (∀ rs, prohibits (.apps rs : Cav B) a = [] ↔ ∃ act id, a.action = some act ∧ a.app = some (some id) ∧ ResSet.prohibitsU64 rs (some id) act = []) ∧
    (∀ rs, prohibits (.volumes rs : Cav B) a = [] ↔ ∃ act id, a.action = some act ∧ a.volume = some (some id) ∧ ResSet.prohibitsStr rs (some id) act = []) ∧
    (∀ rs, prohibits (.machines rs : Cav B) a = [] ↔ ∃ act id, a.action = some act ∧ a.machine = some (some id) ∧ ResSet.prohibitsStr rs (some id) act = []) ∧
    (∀ rs, prohibits (.featureSet rs : Cav B) a = [] ↔ ∃ act id, a.action = some act ∧ a.feature = some (some id) ∧ ResSet.prohibitsStr rs (some id) act = []) ∧
    (∀ rs, prohibits (.machineFeatureSet rs : Cav B) a = [] ↔ ∃ act id, a.action = some act ∧ a.machineFeature = some (some id) ∧ ResSet.prohibitsStr rs (some id) act = []) ∧
    (∀ rs, prohibits (.appFeatureSet rs : Cav B) a = [] ↔ ∃ act id, a.action = some act ∧ a.appFeature = some (some id) ∧ ResSet.prohibitsStr rs (some id) act = []) ∧
    (∀ rs, prohibits (.clusters rs : Cav B) a = [] ↔ ∃ act id, a.action = some act ∧ a.cluster = some (some id) ∧ ResSet.prohibitsStr rs (some id) act = []) ∧
    (∀ rs, prohibits (.storageObjects rs : Cav B) a = [] ↔ ∃ act id, a.action = some act ∧ a.storageObject = some (some id) ∧ ResSet.prohibitsPrefix rs (some id) act = []) := by
  refine ⟨?_, ?_, ?_, ?_, ?_, ?_, ?_, ?_⟩ <;> intro rs <;> unfold prohibits <;>
    exact viaGetter_iff _ _ _ (resset_none_denies _ _ rs)

theorem mutations_iff (ms : Option (List Bytes)) (a : Access) :
    prohibits (.mutations ms : Cav B) a = [] ↔ ∃ m, a.mutation = some (some m) ∧ m ∈ ms.getD [] := by
  unfold prohibits
  cases hm : a.mutation with
  | none => simp
  | some o => cases o with
    | none => simp
    | some m => by_cases h : m ∈ ms.getD [] <;> simp [h]

/-- a command is permitted iff it starts with an allowed argument list or, if exact, equals it;
the nil command list rejects everything, an entry with no arguments (non-exact) allows everything -/
theorem commands_iff (cs : Option (List Command)) (a : Access) :
    prohibits (.commands cs : Cav B) a = [] ↔
      ∃ args, a.command = some (some args) ∧
        ∃ c ∈ cs.getD [], c.argList <+: args ∧ (c.exact = true → c.argList = args) := by
  unfold prohibits
  cases hc : a.command with
  | none => simp
  | some o =>
    cases o with
    | none => simp
    | some args =>
      simp only [Option.some.injEq, exists_eq_left']
      have key : commandAllowed (cs.getD []) args = true ↔
          ∃ c ∈ cs.getD [], c.argList <+: args ∧ (c.exact = true → c.argList = args) := by
        unfold commandAllowed
        simp only [List.any_eq_true, Bool.and_eq_true, Bool.not_eq_eq_eq_not, Bool.not_true,
          decide_eq_false_iff_not, Nat.not_lt, beq_iff_eq, Bool.and_eq_false_iff, bne_eq_false_iff_eq]
        constructor
        · rintro ⟨c, hm, ⟨hle, hex⟩, htake⟩
          refine ⟨c, hm, ?_, ?_⟩
          · rw [htake]; exact List.take_prefix _ _
          · intro he
            rcases hex with hex | hex
            · rw [he] at hex; cases hex
            · rw [htake, hex, List.take_length]
        · rintro ⟨c, hm, hpre, hex⟩
          refine ⟨c, hm, ⟨hpre.length_le, ?_⟩, ?_⟩
          · by_cases he : c.exact = true
            · right; rw [hex he]
            · left; simpa using he
          · exact (List.prefix_iff_eq_take.mp hpre)
      by_cases h : commandAllowed (cs.getD []) args = true
      · simp [h, key.mp h]
      · simp only [h, Bool.false_eq_true, ↓reduceIte, List.cons_ne_self, false_iff]
        exact fun hh => h (key.mpr hh)

/-- the role needed by the request is among the allowed roles -/
theorem allowedRoles_iff (mask : UInt32) (a : Access) :
    prohibits (.allowedRoles mask : Cav B) a = [] ↔ ∃ rs, a.roles = some rs ∧ ∃ p ∈ rs, mask &&& p = p := by
  unfold prohibits allowedRolesProhibits
  cases hr : a.roles with
  | none => simp
  | some rs =>
    by_cases h : rs.any (fun p => mask &&& p == p) = true
    · simp only [h, ↓reduceIte, Option.some.injEq, exists_eq_left', true_iff]
      simpa using h
    · simp only [h, Bool.false_eq_true, ↓reduceIte, List.cons_ne_self, Option.some.injEq, exists_eq_left', false_iff]
      simpa using h

theorem isMember_iff (a : Access) :
    prohibits (.isMember : Cav B) a = [] ↔ ∃ rs, a.roles = some rs ∧ ∃ p ∈ rs, Flyio.roleMember &&& p = p := by
  have := allowedRoles_iff (B := B) Flyio.roleMember a
  unfold prohibits at this ⊢
  exact this

/-- roles a `flyio.Access` needs: member, unless it names a feature that is unknown or whose
member mask does not contain the action — then admin -/
theorem permittedRoles_spec (feature : Option Bytes) (act : Action) :
    ((feature = none ∨ (∃ f m, feature = some f ∧ Flyio.memberMask f = some m ∧ act.subset m = true)) →
        Flyio.permittedRoles feature act = [Flyio.roleMember]) ∧
    (¬ (feature = none ∨ (∃ f m, feature = some f ∧ Flyio.memberMask f = some m ∧ act.subset m = true)) →
        Flyio.permittedRoles feature act = [Flyio.roleAdmin]) := by
  unfold Flyio.permittedRoles
  cases feature with
  | none => simp
  | some f =>
    cases hm : Flyio.memberMask f with
    | none => simp [hm]
    | some m => by_cases hs : act.subset m = true <;> simp [hm, hs]

theorem fromMachine_iff (id : Bytes) (a : Access) :
    prohibits (.fromMachine id : Cav B) a = [] ↔ a.sourceMachine = some (some id) := by
  unfold prohibits
  cases hm : a.sourceMachine with
  | none => simp
  | some o => cases o with
    | none => simp
    | some m => by_cases h : id = m <;> simp [h]; exact fun hh => h hh.symm

theorem flySrcField_iff (want : Bytes) (g : Option (Option Bytes)) :
    flySrcField want g = [] ↔ (want = [] ∨ g = some (some want)) := by
  unfold flySrcField
  cases want with
  | nil => simp
  | cons w ws =>
    cases g with
    | none => simp
    | some o => cases o with
      | none => simp
      | some v => by_cases h : w :: ws = v <;> simp [h]; exact fun hh => h hh.symm

/-- Fly-Src: each non-empty field must be present and equal; empty fields are wildcards -/
theorem flySrc_iff (org app inst : Bytes) (a : Access) :
    prohibits (.flySrc org app inst : Cav B) a = [] ↔
      (inst = [] ∨ a.sourceMachine = some (some inst)) ∧ (app = [] ∨ a.sourceApp = some (some app)) ∧
      (org = [] ∨ a.sourceOrg = some (some org)) := by
  unfold prohibits
  simp only [firstErr]
  rw [← flySrcField_iff, ← flySrcField_iff, ← flySrcField_iff]
  cases flySrcField inst a.sourceMachine <;> cases flySrcField app a.sourceApp <;>
    cases flySrcField org a.sourceOrg <;> simp

theorem isUser_permits (id : UInt64) (a : Access) : prohibits (.isUser id : Cav B) a = [] := by
  unfold prohibits; rfl

/-- the request instant `(sec, nsec)` lies within `[nb, na]` (whole seconds) -/
def inWindow (nb na : Int) (sec : Int) (nsec : Nat) : Prop :=
  (nb ≤ sec) ∧ (sec < na ∨ (sec = na ∧ nsec = 0))

/-- the executable rule the driver evaluates against the implementation is this predicate -/
theorem spec_inWindow_iff (nb na sec : Int) (nsec : Nat) :
    Spec.inWindow nb na sec nsec = true ↔ inWindow nb na sec nsec := by
  simp [Spec.inWindow, inWindow]

/-- the behaviour of the code before the repair of F10 (`time.Unix(sec, 0)` wraps in int64),
kept as a negative example -/
def preFixValidityWindow (nb na : Int64) (a : Access) : Errs :=
  let now := a.nowSec + GoTime.unixToInternal
  if GoTime.after now a.nowNsec (GoTime.absOfUnix64 na) 0 then [.unauthorized]
  else if GoTime.before now a.nowNsec (GoTime.absOfUnix64 nb) 0 then [.unauthorized]
  else []

/-- validity window: the request time lies within the window, on exact instants, for all bounds -/
theorem validityWindow_iff (nb na : Int64) (a : Access) :
    prohibits (.validityWindow nb na : Cav B) a = [] ↔ inWindow nb.toInt na.toInt a.nowSec a.nowNsec := by
  unfold prohibits inWindow
  by_cases h1 : a.nowSec > na.toInt
  · simp [h1] <;> omega
  · by_cases h2 : a.nowSec = na.toInt
    · by_cases h3 : a.nowNsec > 0
      · simp [h2, h3] <;> omega
      · have h3' : a.nowNsec = 0 := by omega
        by_cases h4 : na.toInt < nb.toInt
        · simp [h2, h3', h4] <;> omega
        · simp [h2, h3', h4] <;> omega
    · by_cases h4 : a.nowSec < nb.toInt
      · simp [h1, h2, h4] <;> omega
      · simp [h1, h2, h4] <;> omega

/-- F10 (repaired): with the old rule a window that starts at MaxInt64 permitted "now" and one
that ends at MaxInt64 denied it -/
theorem preFix_overflow_witness :
    preFixValidityWindow 9223372036854775807 (9223372036854775807 - 62135596801) (Access.bare 1700000000 0) = [] ∧
    preFixValidityWindow 0 9223372036854775807 (Access.bare 1700000000 0) ≠ [] := by
  decide

/-! ### the tables of the model are the tables of the code (regenerated on every run) -/

/-- GENERATED-FACT OBLIGATION.  `Flyio.memberFeatures` (what `permittedRoles_spec` is stated over) is
`flyio.MemberFeatures` as extracted from /repo, entry for entry; the role bits, the action bits and the
feature name that `Access.Validate` demands for clusters are the Go constants.  A code change to any
of them breaks the build here. -/
theorem tables_match_generated :
    Flyio.memberFeatures.map (fun e => (e.1, e.2.toNat)) = Generated.memberFeatures ∧
    Generated.natConsts.lookup "flyio.RoleMember" = some Flyio.roleMember.toNat ∧
    Generated.natConsts.lookup "flyio.RoleAdmin" = some Flyio.roleAdmin.toNat ∧
    Generated.natConsts.lookup "resset.ActionRead" = some Action.read.toNat ∧
    Generated.natConsts.lookup "resset.ActionWrite" = some Action.write.toNat ∧
    Generated.natConsts.lookup "resset.ActionCreate" = some Action.create.toNat ∧
    Generated.natConsts.lookup "resset.ActionDelete" = some Action.delete.toNat ∧
    Generated.natConsts.lookup "resset.ActionControl" = some Action.control.toNat ∧
    Generated.natConsts.lookup "resset.ActionAll" = some Action.all.toNat ∧
    Generated.natConsts.lookup "resset.ActionNone" = some Action.none.toNat ∧
    (Generated.strConsts.lookup "flyio.FeatureLFSC").map Bytes.ofString = some Flyio.featureLFSC := by
  refine ⟨by decide, by decide, by decide, by decide, by decide, by decide, by decide, by decide, by decide,
    by decide, ?_⟩
  have h : Generated.strConsts.lookup "flyio.FeatureLFSC" = some "litefs-cloud" := by decide
  rw [h]; rfl

/-- A request is well-formed only if it names an organization, names the parent of every child
resource it names, and names at most one resource per hierarchy level. -/
theorem access_wf_iff (f : Flyio.Req) :
    Flyio.validate f = [] ↔
      f.org.isSome = true ∧
      ((if f.app.isSome then 1 else 0) + (if f.feature.isSome then 1 else 0) + (if f.storageObject.isSome then 1 else 0) ≤ 1) ∧
      ((f.machine.isSome ∨ f.volume.isSome ∨ f.appFeature.isSome) → f.app.isSome = true) ∧
      ((if f.machine.isSome then 1 else 0) + (if f.volume.isSome then 1 else 0) + (if f.appFeature.isSome then 1 else 0) ≤ 1) ∧
      (f.cluster.isSome = true → f.feature = some Flyio.featureLFSC) ∧
      ((f.command.isSome ∨ f.machineFeature.isSome) → f.machine.isSome = true) ∧
      ((if f.command.isSome then 1 else 0) + (if f.machineFeature.isSome then 1 else 0) ≤ 1) := by
  unfold Flyio.validate
  rcases f with ⟨action, org, app, appFeature, feature, volume, machine, machineFeature, mutation,
    sourceMachine, sourceApp, sourceOrg, cluster, command, storageObject⟩
  cases org <;> cases app <;> cases feature <;> cases storageObject <;> cases machine <;> cases volume <;>
    cases appFeature <;> cases cluster <;> cases command <;> cases machineFeature <;>
    simp [Flyio.cnt] <;> (try (split <;> simp_all))

/-! ### non-vacuity / sanity -/

section examples

def rq : Flyio.Req :=
  { Flyio.Req.zero with action := 1, org := some 7, app := some 3, machine := some [109], command := some [[108, 115], [45, 108]] }
def acc : Access := rq.toAccess 1700000000 0

example : Flyio.validate rq = [] := by decide
example := (access_wf_iff rq).mp (by decide)
example : Flyio.validate { rq with app := none } = [.resUnspecified] := by decide
example : Flyio.validate { rq with machineFeature := some [1] } = [.resMutEx] := by decide
example := (organization_iff (B := Bytes) 7 1 acc).mp (by decide)
example := (organization_iff (B := Bytes) 0 31 acc).mp (by decide)
example : prohibits (.organization 8 31 : Cav Bytes) acc = [.forResource] := by decide
example := ((resource_caveats_iff (B := Bytes) acc).1 [(3, 1)]).mp (by decide)
example := (commands_iff (B := Bytes) (some [⟨some [[108, 115]], false⟩]) acc).mp (by decide)
example : prohibits (.commands (some [⟨some [[108, 115]], true⟩]) : Cav Bytes) acc = [.forResource] := by decide
example := (allowedRoles_iff (B := Bytes) 1 acc).mp (by decide)
example := (isMember_iff (B := Bytes) acc).mp (by decide)
example := (permittedRoles_spec (some (Bytes.ofString "billing")) 2).2
example := (mutations_iff (B := Bytes) (some [[1]]) { acc with mutation := some (some [1]) }).mp (by decide)
example := (fromMachine_iff (B := Bytes) [5] { acc with sourceMachine := some (some [5]) }).mp (by decide)
example := (flySrc_iff (B := Bytes) [] [] [5] { acc with sourceMachine := some (some [5]) }).mp (by decide)
example := (validityWindow_iff (B := Bytes) 1600000000 1700000000 acc).mp (by decide)
example : prohibits (.validityWindow 1600000000 1700000000 : Cav Bytes) { acc with nowNsec := 1 } = [.unauthorized] := by decide
example := (validityWindow_iff (B := Bytes) 0 9223372036854775807 acc).mp (by decide)

end examples

end Macaroon.Props.C10

#print axioms Macaroon.Props.C10.organization_iff
#print axioms Macaroon.Props.C10.viaGetter_iff
#print axioms Macaroon.Props.C10.resource_caveats_iff
#print axioms Macaroon.Props.C10.mutations_iff
#print axioms Macaroon.Props.C10.commands_iff
#print axioms Macaroon.Props.C10.allowedRoles_iff
#print axioms Macaroon.Props.C10.isMember_iff
#print axioms Macaroon.Props.C10.permittedRoles_spec
#print axioms Macaroon.Props.C10.fromMachine_iff
#print axioms Macaroon.Props.C10.flySrcField_iff
#print axioms Macaroon.Props.C10.flySrc_iff
#print axioms Macaroon.Props.C10.isUser_permits
#print axioms Macaroon.Props.C10.spec_inWindow_iff
#print axioms Macaroon.Props.C10.validityWindow_iff
#print axioms Macaroon.Props.C10.preFix_overflow_witness
#print axioms Macaroon.Props.C10.access_wf_iff
#print axioms Macaroon.Props.C10.tables_match_generated
