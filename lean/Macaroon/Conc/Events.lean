/-
Event vocabulary of the lock traces that /verif/extract regenerates from
/repo/bundle on every run (Macaroon/Generated/BundleLocks.lean).
-/
namespace Macaroon.Conc

/-- One event of a Bundle entry point on the bundle's RWMutex and token list.
`callout` is a call to user code (Filter.Apply, Verifier, Discharger, a callback). -/
inductive Ev
  | rlock | runlock | lock | unlock | read | write | callout
  deriving DecidableEq, Repr, Inhabited

/-- An exported entry point of package `bundle` (one control-flow path of it) with its
fully inlined event sequence. -/
structure Entry where
  name : String
  trace : List Ev
  deriving Repr

end Macaroon.Conc
