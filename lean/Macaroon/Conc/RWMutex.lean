/-
Executable model of Go's `sync.RWMutex` shared by a pool of threads, each of which runs a
straight-line program over the event vocabulary of `Macaroon.Conc.Ev`.

Writer preference is modelled as in the Go runtime: `Lock` first *announces* itself
(always possible; from then on no new reader gets in) and acquires once no reader
and no writer is active.  `RLock` succeeds iff no writer is active and no `Lock` is
announced.  Everything else never blocks.

The semantics uses only the counters `readers`, `writer` and the per-thread `announced`
flag; it does not look at any ghost "mode", so it is also meaningful for programs that
nest lock operations (which is how the nested-`RLock` deadlock is reproduced below).
-/
import Macaroon.Conc.Events

namespace Macaroon.Conc

/-- A thread: the events it still has to execute, and whether it has announced a pending
`Lock` (it is then waiting for readers/writer to drain). -/
structure Thread where
  announced : Bool
  prog : List Ev
  deriving DecidableEq, Repr, Inhabited

/-- A configuration of the system. -/
structure Config where
  threads : List Thread
  /-- number of active readers (successful `RLock`s not yet `RUnlock`ed) -/
  readers : Nat
  /-- a writer holds the lock -/
  writer : Bool
  deriving DecidableEq, Repr, Inhabited

/-- Some thread has announced a `Lock` and not yet acquired it. -/
def Config.pending (c : Config) : Bool := c.threads.any (·.announced)

/-- The effect of thread `t` taking its next step in `c`: its new state and the new
counters `(readers, writer)`; `none` if the thread is finished or blocked. -/
def next (c : Config) (t : Thread) : Option (Thread × Nat × Bool) :=
  match t.prog with
  | [] => none
  | .rlock :: r =>
    if !c.writer && !c.pending then some (⟨false, r⟩, c.readers + 1, c.writer) else none
  | .runlock :: r => some (⟨false, r⟩, c.readers - 1, c.writer)
  | .lock :: r =>
    if t.announced then
      if c.readers == 0 && !c.writer then some (⟨false, r⟩, c.readers, true) else none
    else some (⟨true, .lock :: r⟩, c.readers, c.writer)
  | .unlock :: r => some (⟨false, r⟩, c.readers, false)
  | .read :: r => some (⟨false, r⟩, c.readers, c.writer)
  | .write :: r => some (⟨false, r⟩, c.readers, c.writer)
  | .callout :: r => some (⟨false, r⟩, c.readers, c.writer)

/-- Thread `i` exists and can take a step. -/
def enabled (c : Config) (i : Nat) : Bool :=
  match c.threads[i]? with
  | none => false
  | some t => (next c t).isSome

/-- Thread `i` takes its next step (no-op if it does not exist, is finished, or is blocked). -/
def step (c : Config) (i : Nat) : Config :=
  match c.threads[i]? with
  | none => c
  | some t =>
    match next c t with
    | none => c
    | some (t', rd, wr) => { threads := c.threads.set i t', readers := rd, writer := wr }

/-- Run a schedule (a list of thread indices, executed left to right). -/
def run (c : Config) (sched : List Nat) : Config := sched.foldl step c

/-- Initial configuration: nobody holds or waits for the lock. -/
def init (progs : List (List Ev)) : Config :=
  { threads := progs.map (fun p => ⟨false, p⟩), readers := 0, writer := false }

/-- All threads have run to completion. -/
def finished (c : Config) : Bool := c.threads.all (·.prog.isEmpty)

/-- Some thread is unfinished and no thread can move. -/
def deadlocked (c : Config) : Bool :=
  !finished c && !(List.range c.threads.length).any (enabled c)

/-! ### Flat traces -/

/-- Where a thread is with respect to the lock. -/
inductive Mode
  | idle | rd | wr
  deriving DecidableEq, Repr, Inhabited

/-- `FlatFrom m rest`: `rest` is a legal continuation of a flat trace for a thread that is
currently outside any section (`idle`), inside a read section (`rd`) or inside a write
section (`wr`). -/
def FlatFrom : Mode → List Ev → Bool
  | .idle, [] => true
  | .idle, .callout :: r => FlatFrom .idle r
  | .idle, .rlock :: r => FlatFrom .rd r
  | .idle, .lock :: r => FlatFrom .wr r
  | .rd, .read :: r => FlatFrom .rd r
  | .rd, .callout :: r => FlatFrom .rd r
  | .rd, .runlock :: r => FlatFrom .idle r
  | .wr, .read :: r => FlatFrom .wr r
  | .wr, .write :: r => FlatFrom .wr r
  | .wr, .callout :: r => FlatFrom .wr r
  | .wr, .unlock :: r => FlatFrom .idle r
  | _, _ => false

/-- The trace is a sequence of sections `rlock (read|callout)* runlock` and
`lock (read|write|callout)* unlock` with only `callout`s in between: no lock operation
inside a section, every section closed, no access outside a section, no `write` inside a
read section. -/
def Flat (p : List Ev) : Bool := FlatFrom .idle p

example : Flat [.callout, .rlock, .read, .callout, .runlock, .callout, .lock, .write, .read, .unlock] = true := by decide
example : Flat [.read] = false := by decide                                   -- access outside a section
example : Flat [.rlock, .write, .runlock] = false := by decide               -- write under the read lock
example : Flat [.rlock, .read] = false := by decide                          -- section not closed
example : Flat [.lock, .rlock, .runlock, .unlock] = false := by decide       -- lock operation inside a section
example : Flat [.rlock, .unlock] = false := by decide                        -- mismatched release

/-! ### Races -/

/-- The next event of thread `i` is a `write` of the token list. -/
def nextIsWrite (c : Config) (i : Nat) : Bool :=
  match c.threads[i]? with
  | some ⟨_, .write :: _⟩ => true
  | _ => false

/-- The next event of thread `i` is an access (`read` or `write`) of the token list. -/
def nextIsAccess (c : Config) (i : Nat) : Bool :=
  match c.threads[i]? with
  | some ⟨_, .read :: _⟩ => true
  | some ⟨_, .write :: _⟩ => true
  | _ => false

/-- Two distinct threads are both about to access the token list, at least one writing. -/
def raceAt (c : Config) : Bool :=
  (List.range c.threads.length).any fun i =>
    (List.range c.threads.length).any fun j =>
      i != j && nextIsAccess c i && nextIsAccess c j && (nextIsWrite c i || nextIsWrite c j)

/-! ### Bounded search (witness production only) -/

/-- Depth-first search over schedules of at most `fuel` steps from `c`; returns the
(reversed-accumulated) schedule to a deadlocked configuration. -/
def searchDeadlock : Nat → Config → List Nat → Option (List Nat)
  | 0, c, acc => if deadlocked c then some acc.reverse else none
  | fuel + 1, c, acc =>
    if deadlocked c then some acc.reverse
    else
      (List.range c.threads.length).firstM fun i =>
        if enabled c i then searchDeadlock fuel (step c i) (i :: acc) else none

/-- A schedule of at most `fuel` steps that drives `progs` into a deadlock, if the
depth-first search finds one. -/
def findDeadlock (progs : List (List Ev)) (fuel : Nat) : Option (List Nat) :=
  searchDeadlock fuel (init progs) []

/-- The nested-`RLock` pattern (`Bundle.Any`, `Clone`, …) against one writer. -/
def nestedRLockProgs : List (List Ev) :=
  [[.rlock, .rlock, .runlock, .runlock], [.lock, .unlock]]

/-- Reader takes the outer `RLock`, writer announces `Lock`; now the inner `RLock` waits
for the writer and the writer waits for the reader. -/
def nestedRLockWitness : List Nat := [0, 1]

example : deadlocked (run (init nestedRLockProgs) nestedRLockWitness) = true := by decide

example : findDeadlock nestedRLockProgs 8 = some nestedRLockWitness := by decide

/-- Writer preference: once a `Lock` is announced a fresh `RLock` is refused, although
only a reader holds the lock. -/
example : enabled (run (init [[.rlock, .runlock], [.lock, .unlock], [.rlock, .runlock]]) [0, 1]) 2
    = false := by decide

/-- A race: an unguarded `read` against a `write` inside a write section. -/
example : raceAt (run (init [[.read], [.lock, .write, .unlock]]) [1, 1]) = true := by decide

end Macaroon.Conc
