/-
Typed MessagePack codec of caveats, caveat sets, nonces, tokens and tickets over the byte-level
value trees of Wire/Msgpack.lean.

`toV`/`enc*` : the canonical encoding the Go encoder produces (`UseArrayEncodedStructs`,
`UseCompactInts`, sorted resource-set keys, bin for []byte, raw pass-through for unregistered
caveats) — these bytes are what gets MACed.
`*OfV`/`dec*` : what vmihailenco/msgpack v5.3.5 accepts for the Go types in play (wider integer
encodings, signed for unsigned and vice versa with wrap-around and truncation, str for bin, nil
for zero values, empty arrays and nil for zero structs, map-encoded structs with unknown keys
skipped, duplicate map keys with last-wins).

Not modelled (named in the evidence of C11/C12): extension headers in front of map lengths;
wire `nil` for []byte fields is read as the empty string (Go keeps nil and re-encodes nil);
decoding a field twice in a map-encoded struct merges Go maps (here: last wins).
Core Lean only.
-/
import Macaroon.Wire.Msgpack
import Macaroon.Caveat.Types

namespace Macaroon
open Msgpack

/-! ### canonical encoding -/

namespace Codec

/-- insertion sort by a strict order (resource-set keys) -/
def insertBy {α} (lt : α → α → Bool) (x : α) : List α → List α
  | [] => [x]
  | y :: ys => if lt x y then x :: y :: ys else y :: insertBy lt x ys
def sortBy {α} (lt : α → α → Bool) : List α → List α
  | [] => []
  | x :: xs => insertBy lt x (sortBy lt xs)

/-- Go map assignment: last write wins -/
def assign {K} [BEq K] (k : K) (m : Action) : ResSet K → ResSet K
  | [] => [(k, m)]
  | (k', m') :: rest => if k' == k then (k, m) :: rest else (k', m') :: assign k m rest

/-- build the map from a sequence of assignments, then put it in the encoder's key order -/
def ofEntriesStr (es : List (Bytes × Action)) : ResSet Bytes :=
  sortBy (fun a b => Bytes.lt a.1 b.1) (es.foldl (fun m e => assign e.1 e.2 m) [])
def ofEntriesU64 (es : List (UInt64 × Action)) : ResSet UInt64 :=
  sortBy (fun a b => a.1 < b.1) (es.foldl (fun m e => assign e.1 e.2 m) [])

def strSetV (rs : ResSet Bytes) : V :=
  V.ofArr [V.ofMap ((ofEntriesStr rs).map fun e => (V.ofStr e.1, V.ofUint e.2.toNat))]
def u64SetV (rs : ResSet UInt64) : V :=
  V.ofArr [V.ofMap ((ofEntriesU64 rs).map fun e => (V.ofUint e.1.toNat, V.ofUint e.2.toNat))]

def strSliceV : Option (List Bytes) → V
  | none => .nil
  | some ss => V.ofArr (ss.map V.ofStr)

def commandV (c : Command) : V := V.ofArr [strSliceV c.args, .bool c.exact]

/-- minimal big-endian bytes of a natural (`big.Int.Bytes`) -/
def natBytes (n : Nat) : Bytes :=
  if n = 0 then [] else
  let k := (Nat.log2 n) / 8 + 1
  beBytes k n

end Codec

open Codec

namespace CavList
def length {B} : CavList B → Nat
  | .nil => 0
  | .cons _ cs => length cs + 1
end CavList

/-- header of an array of `n` elements -/
def arrHeader (n : Nat) : Bytes := encLen 0x90 0xdc 0xdc 0xdd (arrFmt n) n

mutual
/-- canonical encoding of a caveat body (`enc.Encode(cav)`) -/
def encBody : Cav Bytes → Bytes
  | .organization id mask => enc (V.ofArr [V.ofUint id.toNat, V.ofUint mask.toNat])
  | .volumes rs => enc (strSetV rs)
  | .apps rs => enc (u64SetV rs)
  | .validityWindow nb na => enc (V.ofArr [V.ofInt nb.toInt, V.ofInt na.toInt])
  | .featureSet rs => enc (strSetV rs)
  | .mutations ms => enc (V.ofArr [strSliceV ms])
  | .machines rs => enc (strSetV rs)
  | .confineUser id => enc (V.ofArr [V.ofUint id.toNat])
  | .confineOrganization id => enc (V.ofArr [V.ofUint id.toNat])
  | .isUser id => enc (V.ofArr [V.ofUint id.toNat])
  | .tp loc vk ticket => enc (V.ofArr [V.ofStr loc, V.ofBin vk, V.ofBin ticket])
  | .bind id => enc (V.ofBin id)
  | .ifPresent nilIfs ifs els =>
    -- array header of a 2-field struct, then the fields
    0x92 :: ((if nilIfs then [0xc0] else arrHeader (2 * ifs.length) ++ encPairs ifs) ++ enc (V.ofUint els.toNat))
  | .machineFeatureSet rs => enc (strSetV rs)
  | .fromMachine id => enc (V.ofArr [V.ofStr id])
  | .clusters rs => enc (strSetV rs)
  | .confineGoogleHD hd => enc (V.ofStr hd)
  | .confineGitHubOrg id => enc (V.ofUint id.toNat)
  | .maxValidity s => enc (V.ofUint s.toNat)
  | .isMember => enc (V.ofArr [])
  | .flyioUserID id => enc (V.ofUint id.toNat)
  | .gitHubUserID id => enc (V.ofUint id.toNat)
  | .googleUserID n => enc (V.ofBin (natBytes n))
  | .action m => enc (V.ofUint m.toNat)
  | .commands none => enc V.nil
  | .commands (some cs) => enc (V.ofArr (cs.map commandV))
  | .appFeatureSet rs => enc (strSetV rs)
  | .storageObjects rs => enc (strSetV rs)
  | .allowedRoles m => enc (V.ofUint m.toNat)
  | .flySrc o a i => enc (V.ofArr [V.ofStr o, V.ofStr a, V.ofStr i])
  | .unregistered _ raw => raw
/-- the (type, body) pairs of a caveat set, concatenated -/
def encPairs : CavList Bytes → Bytes
  | .nil => []
  | .cons c cs => enc (V.ofUint c.typ.toNat) ++ encBody c ++ encPairs cs
end

/-- `CaveatSet.EncodeMsgpack`: array of 2n elements: type, body, type, body, … -/
def encCavs (cs : CavList Bytes) : Bytes := arrHeader (2 * cs.length) ++ encPairs cs

mutual
/-- `MarshalMsgpack` succeeds: an unregistered caveat without raw bytes cannot be encoded -/
def encodable : Cav Bytes → Bool
  | .unregistered _ raw => !raw.isEmpty
  | .ifPresent _ ifs _ => encodableL ifs
  | _ => true
def encodableL : CavList Bytes → Bool
  | .nil => true
  | .cons c cs => encodable c && encodableL cs
end

/-- `NewCaveatSet(c).MarshalMsgpack()`: what is MACed for one caveat -/
def encCav (c : Cav Bytes) : Bytes := 0x92 :: (enc (V.ofUint c.typ.toNat) ++ encBody c)

def encCavSet (cs : List (Cav Bytes)) : Bytes := encCavs (CavList.ofList cs)

/-! ### nonces, tokens, tickets -/

/-- `macaroon.Nonce`: key-id, random part, and for version 1 the proof flag -/
structure Nonce where
  kid : Bytes
  rnd : Bytes
  version : Nat          -- 0: two fields, 1: three fields
  proof : Bool           -- always false for version 0
  deriving DecidableEq, Repr, Inhabited

def encNonce (n : Nonce) : Bytes :=
  if n.version = 0 then enc (V.ofArr [V.ofBin n.kid, V.ofBin n.rnd])
  else enc (V.ofArr [V.ofBin n.kid, V.ofBin n.rnd, .bool n.proof])

/-- the wire form of a token -/
structure WireMac where
  nonce : Nonce
  loc : Bytes
  cavs : List (Cav Bytes)
  tail : Bytes

def encMac (m : WireMac) : Bytes :=
  0x94 :: (encNonce m.nonce ++ enc (V.ofStr m.loc) ++ encCavSet m.cavs ++ enc (V.ofBin m.tail))

/-- `wireTicket` plaintext -/
def encTicket (dk : Bytes) (cs : List (Cav Bytes)) : Bytes :=
  0x92 :: (enc (V.ofBin dk) ++ encCavSet cs)

/-! ### lenient decoding -/

namespace Dec

abbrev D := Except Unit
def fail {α} : D α := .error ()

/-- unsigned integer target of `bits` bits: any integer encoding, reinterpreted as uint64 then
truncated; nil and a missing field are 0 -/
def asUint (bits : Nat) : Option V → D Nat
  | none => pure 0
  | some .nil => pure 0
  | some (.int _ v) => pure ((v % (2 ^ 64 : Nat)).toNat % 2 ^ bits)
  | _ => fail

def asInt64 : Option V → D Int
  | none => pure 0
  | some .nil => pure 0
  | some (.int _ v) => pure (if v ≥ 2 ^ 63 then v - 2 ^ 64 else v)
  | _ => fail

/-- string and []byte targets: str and bin are interchangeable; nil is empty -/
def asBytes : Option V → D Bytes
  | none => pure []
  | some .nil => pure []
  | some (.str _ s) => pure s
  | some (.bin _ b) => pure b
  | _ => fail

def asBool : Option V → D Bool
  | none => pure false
  | some .nil => pure false
  | some (.bool b) => pure b
  | _ => fail

def asStrSlice : Option V → D (Option (List Bytes))
  | none => pure none
  | some .nil => pure none
  | some (.arr _ xs) => do
    let ss ← xs.toList.mapM fun v => asBytes (some v)
    pure (some ss)
  | _ => fail

/-- struct target with the given Go field names: array form (exact count; empty = zero struct),
map form (by name; unknown keys skipped, missing fields zero, last duplicate wins), nil = zero -/
def fieldsOf (names : List String) : Option V → D (List (Option V))
  | none => pure (names.map fun _ => none)
  | some .nil => pure (names.map fun _ => none)
  | some (.arr _ xs) =>
    let l := xs.toList
    if l.isEmpty then pure (names.map fun _ => none)
    else if l.length = names.length then pure (l.map some)
    else fail
  | some (.map _ kvs) =>
    let rec pairs : List V → D (List (Bytes × V))
      | k :: v :: rest => do
        let kb ← asBytes (some k)
        let r ← pairs rest
        pure ((kb, v) :: r)
      | _ => pure []
    do
      let ps ← pairs kvs.toList
      pure (names.map fun n => (ps.reverse.find? fun p => p.1 == Bytes.ofString n).map (·.2))
  | _ => fail

def mapPairs : List V → List (V × V)
  | k :: v :: rest => (k, v) :: mapPairs rest
  | _ => []

def asStrSet : Option V → D (ResSet Bytes)
  | none => pure []
  | some .nil => pure []
  | some (.map _ kvs) => do
    let es ← (mapPairs kvs.toList).mapM fun kv => do
      let k ← asBytes (some kv.1)
      let m ← asUint 16 (some kv.2)
      pure (k, UInt16.ofNat m)
    pure (Codec.ofEntriesStr es)
  | _ => fail

def asU64Set : Option V → D (ResSet UInt64)
  | none => pure []
  | some .nil => pure []
  | some (.map _ kvs) => do
    let es ← (mapPairs kvs.toList).mapM fun kv => do
      let k ← asUint 64 (some kv.1)
      let m ← asUint 16 (some kv.2)
      pure (UInt64.ofNat k, UInt16.ofNat m)
    pure (Codec.ofEntriesU64 es)
  | _ => fail

def field (fs : List (Option V)) (i : Nat) : Option V := (fs[i]?).join

mutual
/-- what decoding into `interface{}` with `DecodeUntypedMap` accepts (unregistered caveat bodies):
no extension types other than the timestamp, map keys hashable (no array, map or bin keys) -/
def genericOk : V → Bool
  | .ext _ typ data => typ == 0xff && (data.length == 4 || data.length == 8 || data.length == 12)
  | .arr _ xs => genericOkL xs
  | .map _ kvs => genericOkKV kvs
  | _ => true
def genericOkL : VL → Bool
  | .nil => true
  | .cons v vs => genericOk v && genericOkL vs
/-- alternating key, value -/
def genericOkKV : VL → Bool
  | .nil => true
  | .cons _ .nil => true
  | .cons k (.cons v rest) =>
    (match k with | .arr .. => false | .map .. => false | .bin .. => false | _ => genericOk k)
      && genericOk v && genericOkKV rest
end

def strSetCav (mk : ResSet Bytes → Cav Bytes) (name : String) (v : V) : D (Cav Bytes) := do
  let fs ← fieldsOf [name] (some v)
  pure (mk (← asStrSet (field fs 0)))

def u64Struct (mk : UInt64 → Cav Bytes) (name : String) (v : V) : D (Cav Bytes) := do
  let fs ← fieldsOf [name] (some v)
  pure (mk (UInt64.ofNat (← asUint 64 (field fs 0))))

def command (v : V) : D Command := do
  let fs ← fieldsOf ["Args", "Exact"] (some v)
  pure { args := ← asStrSlice (field fs 0), exact := ← asBool (field fs 1) }

mutual
/-- decode a caveat body of type `typ`; `fuel` bounds the nesting of caveat sets inside wrappers -/
def cavOfV : Nat → Nat → V → D (Cav Bytes)
  | fuel, typ, v =>
    match typ with
    | 0 => do
      let fs ← fieldsOf ["ID", "Mask"] (some v)
      pure (.organization (UInt64.ofNat (← asUint 64 (field fs 0))) (UInt16.ofNat (← asUint 16 (field fs 1))))
    | 2 => strSetCav .volumes "Volumes" v
    | 3 => do
      let fs ← fieldsOf ["Apps"] (some v)
      pure (.apps (← asU64Set (field fs 0)))
    | 4 => do
      let fs ← fieldsOf ["NotBefore", "NotAfter"] (some v)
      pure (.validityWindow (Int64.ofInt (← asInt64 (field fs 0))) (Int64.ofInt (← asInt64 (field fs 1))))
    | 5 => strSetCav .featureSet "Features" v
    | 6 => do
      let fs ← fieldsOf ["Mutations"] (some v)
      pure (.mutations (← asStrSlice (field fs 0)))
    | 7 => strSetCav .machines "Machines" v
    | 8 => u64Struct .confineUser "ID" v
    | 9 => u64Struct .confineOrganization "ID" v
    | 10 => u64Struct .isUser "ID" v
    | 11 => do
      let fs ← fieldsOf ["Location", "VerifierKey", "Ticket"] (some v)
      pure (.tp (← asBytes (field fs 0)) (← asBytes (field fs 1)) (← asBytes (field fs 2)))
    | 12 => do pure (.bind (← asBytes (some v)))
    | 13 =>
      match fuel with
      | 0 => fail
      | fuel + 1 => do
        let fs ← fieldsOf ["Ifs", "Else"] (some v)
        let els ← asUint 16 (field fs 1)
        match field fs 0 with
        | none => pure (.ifPresent true .nil (UInt16.ofNat els))
        | some .nil => pure (.ifPresent true .nil (UInt16.ofNat els))
        | some sv => do
          let cs ← cavsOfV fuel sv
          pure (.ifPresent false (CavList.ofList cs) (UInt16.ofNat els))
    | 14 => strSetCav .machineFeatureSet "Features" v
    | 15 => do
      let fs ← fieldsOf ["ID"] (some v)
      pure (.fromMachine (← asBytes (field fs 0)))
    | 16 => strSetCav .clusters "Clusters" v
    | 19 => do pure (.confineGoogleHD (← asBytes (some v)))
    | 20 => do pure (.confineGitHubOrg (UInt64.ofNat (← asUint 64 (some v))))
    | 21 => do pure (.maxValidity (UInt64.ofNat (← asUint 64 (some v))))
    | 22 => do
      let _ ← fieldsOf [] (some v)
      pure .isMember
    | 23 => do pure (.flyioUserID (UInt64.ofNat (← asUint 64 (some v))))
    | 24 => do pure (.gitHubUserID (UInt64.ofNat (← asUint 64 (some v))))
    | 25 => do pure (.googleUserID (beVal (← asBytes (some v))))
    | 26 => do pure (.action (UInt16.ofNat (← asUint 16 (some v))))
    | 27 =>
      match v with
      | .nil => pure (.commands none)
      | .arr _ xs => do
        let cs ← xs.toList.mapM command
        pure (.commands (some cs))
      | _ => fail
    | 28 => strSetCav .appFeatureSet "Features" v
    | 29 => strSetCav .storageObjects "Prefixes" v
    | 30 => do pure (.allowedRoles (UInt32.ofNat (← asUint 32 (some v))))
    | 31 => do
      let fs ← fieldsOf ["Organization", "App", "Instance"] (some v)
      pure (.flySrc (← asBytes (field fs 0)) (← asBytes (field fs 1)) (← asBytes (field fs 2)))
    | t =>
      match v with
      | .nil => pure (.unregistered 0 [])   -- the library zeroes the whole value on a nil body: type 0, no raw bytes
      | _ => if genericOk v then pure (.unregistered (UInt64.ofNat t) (enc v)) else fail
/-- `CaveatSet.DecodeMsgpack`: an array of an even number of elements -/
def cavsOfV : Nat → V → D (List (Cav Bytes))
  | fuel, .arr _ xs => cavPairs fuel xs.toList
  | _, _ => fail
def cavPairs : Nat → List V → D (List (Cav Bytes))
  | _, [] => pure []
  | _, [_] => fail
  | fuel, t :: b :: rest => do
    let typ ← asUint 64 (some t)
    let c ← cavOfV fuel typ b
    let cs ← cavPairs fuel rest
    pure (c :: cs)
end

/-- `Nonce.DecodeMsgpack`: an array of exactly two or three elements -/
def nonceOfV : V → D Nonce
  | .arr _ xs =>
    match xs.toList with
    | [k, r] => do pure { kid := ← asBytes (some k), rnd := ← asBytes (some r), version := 0, proof := false }
    | [k, r, p] => do pure { kid := ← asBytes (some k), rnd := ← asBytes (some r), version := 1, proof := ← asBool (some p) }
    | _ => fail
  | _ => fail

def zeroNonce : Nonce := { kid := [], rnd := [], version := 0, proof := false }

/-- `macaroon.Decode` on the value tree of the whole input -/
def macOfV (fuel : Nat) (v : V) : D WireMac := do
  let fs ← fieldsOf ["Nonce", "Location", "UnsafeCaveats", "Tail"] (some v)
  let nonce ← match field fs 0 with
    | none => pure zeroNonce
    | some .nil => pure zeroNonce
    | some nv => nonceOfV nv
  let loc ← asBytes (field fs 1)
  let cavs ← match field fs 2 with
    | none => pure []
    | some .nil => pure []
    | some cv => cavsOfV fuel cv
  let tail ← asBytes (field fs 3)
  pure { nonce, loc, cavs, tail }

def ticketOfV (fuel : Nat) (v : V) : D (Bytes × List (Cav Bytes)) := do
  let fs ← fieldsOf ["DischargeKey", "Caveats"] (some v)
  let dk ← asBytes (field fs 0)
  let cavs ← match field fs 1 with
    | none => pure []
    | some .nil => pure []
    | some cv => cavsOfV fuel cv
  pure (dk, cavs)

end Dec

/-- nesting budget the driver uses (the Go code has none; see C12) -/
def defaultFuel : Nat := 200

/-- `macaroon.Decode(buf)`: msgpack.Unmarshal reads one value and ignores trailing bytes -/
def decodeMac (fuel : Nat) (bs : Bytes) : Option WireMac :=
  match dec fuel bs with
  | none => none
  | some (v, _) => (Dec.macOfV fuel v).toOption

/-- `macaroon.DecodeCaveats(buf)` -/
def decodeCavs (fuel : Nat) (bs : Bytes) : Option (List (Cav Bytes)) :=
  match dec fuel bs with
  | none => none
  | some (v, _) => (Dec.cavsOfV fuel v).toOption

/-- `macaroon.DecodeCaveats(buf)` as a caller sees it, the byte string standing on its own: for a wire
`nil` in the OUTERMOST position the msgpack library does not call `CaveatSet.DecodeMsgpack` at all, it
leaves the zero value — the empty set — and succeeds (`decodeCavs` refuses a `nil` tree; inside tokens,
tickets and conditionals the `nil` case is handled by the callers of `cavsOfV`).  Found by the wire
family's container sweep; this is what the driver evaluates for `dec.cavs` / `reenc.cavs`. -/
def decodeCavsTopLevel (fuel : Nat) (bs : Bytes) : Option (List (Cav Bytes)) :=
  match dec fuel bs with
  | some (.nil, _) => some []
  | _ => decodeCavs fuel bs

def decodeTicket (fuel : Nat) (bs : Bytes) : Option (Bytes × List (Cav Bytes)) :=
  match dec fuel bs with
  | none => none
  | some (v, _) => (Dec.ticketOfV fuel v).toOption

end Macaroon
