/-
Caveats of the registered universe of superfly/macaroon (core, resset, auth,
flyio) plus unregistered pass-through.  One constructor per Go caveat type,
carrying exactly the Go fields with Go's value spaces.

`B` is the carrier of cryptographic byte strings (concrete `Bytes`, or symbolic
`Term`); it only occurs in third-party and binding caveats.
Core Lean only.
-/
import Macaroon.Basic.Bytes

namespace Macaroon

/-- `resset.Action`: a 16-bit mask. -/
abbrev Action := UInt16

namespace Action
def read : Action := 1
def write : Action := 2
def create : Action := 4
def delete : Action := 8
def control : Action := 16
def all : Action := 31
def none : Action := 0
/-- `resset.IsSubsetOf a b` : `a & b == a`. -/
@[inline] def subset (a b : Action) : Bool := a &&& b == a
end Action

/-- The six caveat types that wrap a `ResourceSet[string, Action]`. -/
inductive StrSetKind
  | volumes | machines | featureSet | machineFeatureSet | appFeatureSet | clusters
  deriving DecidableEq, Repr, Inhabited

/-- A Go map `ResourceSet[K, Action]` as an association list (a map: keys unique). -/
abbrev ResSet (K : Type) := List (K × Action)

/-- `flyio.Command` : `Args` (nil and empty differ on the wire) and `Exact`. -/
structure Command where
  args : Option (List Bytes)
  exact : Bool
  deriving DecidableEq, Repr, Inhabited

def Command.argList (c : Command) : List Bytes := c.args.getD []

mutual
inductive Cav (B : Type) : Type
  | organization (id : UInt64) (mask : Action)                       -- 0  flyio.Organization
  | volumes (rs : ResSet Bytes)                                      -- 2  flyio.Volumes
  | apps (rs : ResSet UInt64)                                        -- 3  flyio.Apps
  | validityWindow (notBefore notAfter : Int64)                      -- 4  macaroon.ValidityWindow
  | featureSet (rs : ResSet Bytes)                                   -- 5  flyio.FeatureSet
  | mutations (ms : Option (List Bytes))                             -- 6  flyio.Mutations
  | machines (rs : ResSet Bytes)                                     -- 7  flyio.Machines
  | confineUser (id : UInt64)                                        -- 8  auth.ConfineUser
  | confineOrganization (id : UInt64)                                -- 9  auth.ConfineOrganization
  | isUser (id : UInt64)                                             -- 10 flyio.IsUser
  | tp (loc : Bytes) (vk ticket : B)                                 -- 11 macaroon.Caveat3P
  | bind (id : B)                                                    -- 12 macaroon.BindToParentToken
  | ifPresent (nilIfs : Bool) (ifs : CavList B) (els : Action)       -- 13 resset.IfPresent (nilIfs: the pointer is nil)
  | machineFeatureSet (rs : ResSet Bytes)                            -- 14 flyio.MachineFeatureSet
  | fromMachine (id : Bytes)                                         -- 15 flyio.FromMachine
  | clusters (rs : ResSet Bytes)                                     -- 16 flyio.Clusters
  | confineGoogleHD (hd : Bytes)                                     -- 19 auth.ConfineGoogleHD
  | confineGitHubOrg (id : UInt64)                                   -- 20 auth.ConfineGitHubOrg
  | maxValidity (secs : UInt64)                                      -- 21 auth.MaxValidity
  | isMember                                                         -- 22 flyio.IsMember
  | flyioUserID (id : UInt64)                                        -- 23 auth.FlyioUserID (attestation)
  | gitHubUserID (id : UInt64)                                       -- 24 auth.GitHubUserID (attestation)
  | googleUserID (n : Nat)                                           -- 25 auth.GoogleUserID (attestation; big.Int magnitude)
  | action (mask : Action)                                           -- 26 resset.Action
  | commands (cs : Option (List Command))                            -- 27 flyio.Commands
  | appFeatureSet (rs : ResSet Bytes)                                -- 28 flyio.AppFeatureSet
  | storageObjects (rs : ResSet Bytes)                               -- 29 flyio.StorageObjects (prefix ids)
  | allowedRoles (mask : UInt32)                                     -- 30 flyio.AllowedRoles
  | flySrc (org app inst : Bytes)                                    -- 31 flyio.FlySrc
  | unregistered (typ : UInt64) (raw : Bytes)                        -- any other type number; raw msgpack body
inductive CavList (B : Type) : Type
  | nil
  | cons (c : Cav B) (cs : CavList B)
end

namespace CavList
def toList {B} : CavList B → List (Cav B)
  | .nil => []
  | .cons c cs => c :: toList cs
def ofList {B} : List (Cav B) → CavList B
  | [] => .nil
  | c :: cs => .cons c (ofList cs)
@[simp] theorem toList_ofList {B} (l : List (Cav B)) : toList (ofList l) = l := by
  induction l with
  | nil => rfl
  | cons c cs ih => simp [ofList, toList, ih]
@[simp] theorem ofList_toList {B} : (l : CavList B) → ofList (toList l) = l
  | .nil => rfl
  | .cons c cs => by simp [ofList, toList, ofList_toList cs]
end CavList

namespace Cav
variable {B : Type}

/-- numeric caveat type (`CaveatType()`) -/
def typ : Cav B → UInt64
  | organization .. => 0 | volumes .. => 2 | apps .. => 3 | validityWindow .. => 4
  | featureSet .. => 5 | mutations .. => 6 | machines .. => 7 | confineUser .. => 8
  | confineOrganization .. => 9 | isUser .. => 10 | tp .. => 11 | bind .. => 12
  | ifPresent .. => 13 | machineFeatureSet .. => 14 | fromMachine .. => 15 | clusters .. => 16
  | confineGoogleHD .. => 19 | confineGitHubOrg .. => 20 | maxValidity .. => 21 | isMember => 22
  | flyioUserID .. => 23 | gitHubUserID .. => 24 | googleUserID .. => 25 | action .. => 26
  | commands .. => 27 | appFeatureSet .. => 28 | storageObjects .. => 29 | allowedRoles .. => 30
  | flySrc .. => 31 | unregistered t _ => t

/-- `macaroon.IsAttestation` -/
def isAttestation : Cav B → Bool
  | flyioUserID .. | gitHubUserID .. | googleUserID .. => true
  | _ => false

def is3P : Cav B → Bool | tp .. => true | _ => false
def isBind : Cav B → Bool | bind .. => true | _ => false
def isWrapper : Cav B → Bool | ifPresent .. => true | _ => false

end Cav
end Macaroon
