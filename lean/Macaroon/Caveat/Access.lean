/-
Requests ("accesses") and errors of the clearing layer.

Go caveats inspect a request through optional interfaces.  `Access` has one
field per interface: `none` = the request type does not implement it; pointer
results are themselves `Option`.  Errors are lists of leaves, each leaf standing
for one error value created by the library; `errors.Is` is a search over the
leaves' sentinel chains — never message text.
Core Lean only.
-/
import Macaroon.Caveat.Types

namespace Macaroon

/-- exported sentinel errors the code branches on / callers test with `errors.Is` -/
inductive Sentinel
  | unauthorized | invalidAccess | badCaveat | resUnspecified | resMutEx
  | forResource | forAction | forRole
  deriving DecidableEq, Repr, Inhabited

/-- one error leaf -/
inductive Err
  | unauthorized      -- wraps ErrUnauthorized only
  | invalidAccess     -- ErrInvalidAccess → ErrUnauthorized
  | badCaveat         -- ErrBadCaveat → ErrUnauthorized
  | resUnspecified    -- resset.ErrResourceUnspecified → ErrInvalidAccess → ErrUnauthorized
  | resMutEx          -- resset.ErrResourcesMutuallyExclusive → ErrInvalidAccess → ErrUnauthorized
  | forResource       -- resset.ErrUnauthorizedForResource → ErrUnauthorized
  | forAction         -- resset.ErrUnauthorizedForAction → ErrUnauthorized
  | forRole           -- flyio.ErrUnauthorizedForRole → ErrUnauthorized
  | confine           -- an auth.Confine* caveat returned as its own error value (wraps nothing)
  | other             -- a foreign error (from a request's own Validate)
  deriving DecidableEq, Repr, Inhabited

/-- `errors.Is(leaf, sentinel)` -/
def Err.is : Err → Sentinel → Bool
  | .unauthorized, s => s == .unauthorized
  | .invalidAccess, s => s == .invalidAccess || s == .unauthorized
  | .badCaveat, s => s == .badCaveat || s == .unauthorized
  | .resUnspecified, s => s == .resUnspecified || s == .invalidAccess || s == .unauthorized
  | .resMutEx, s => s == .resMutEx || s == .invalidAccess || s == .unauthorized
  | .forResource, s => s == .forResource || s == .unauthorized
  | .forAction, s => s == .forAction || s == .unauthorized
  | .forRole, s => s == .forRole || s == .unauthorized
  | .confine, _ => false
  | .other, _ => false

/-- A Go `error` built by `merr.Append`/`errors.Join`: `[]` is nil. -/
abbrev Errs := List Err

/-- `errors.Is(err, sentinel)` on a combined error -/
def Errs.is (es : Errs) (s : Sentinel) : Bool := es.any (·.is s)

/-- `auth.DischargeRequest` -/
structure DischargeReq where
  flyio : List (UInt64 × List UInt64)     -- FlyioAuth: (UserID, OrganizationIDs)
  google : List Bytes                      -- GoogleAuth.HD
  github : List (List UInt64)              -- GitHubAuth.OrgIDs
  expirySec : Int                          -- Expiry, unix seconds
  expiryNsec : Nat
  deriving Repr, Inhabited

structure Access where
  /-- `Now()` in unix seconds + nanoseconds -/
  nowSec : Int
  nowNsec : Nat
  /-- result of the request's own `Validate()` -/
  wf : Errs
  /-- resset.Access: GetAction -/
  action : Option Action
  org : Option (Option UInt64)
  app : Option (Option UInt64)
  appFeature : Option (Option Bytes)
  feature : Option (Option Bytes)
  volume : Option (Option Bytes)
  machine : Option (Option Bytes)
  machineFeature : Option (Option Bytes)
  cluster : Option (Option Bytes)
  storageObject : Option (Option Bytes)
  mutation : Option (Option Bytes)
  sourceMachine : Option (Option Bytes)
  sourceApp : Option (Option Bytes)
  sourceOrg : Option (Option Bytes)
  /-- CommandGetter: the argument slice, `some none` = nil slice -/
  command : Option (Option (List Bytes))
  /-- PermittedRolesGetter -/
  roles : Option (List UInt32)
  /-- the request is an `*auth.DischargeRequest` -/
  discharge : Option DischargeReq
  deriving Repr, Inhabited

/-- a request type that implements nothing but `Now`/`Validate` -/
def Access.bare (sec : Int) (nsec : Nat) : Access :=
  { nowSec := sec, nowNsec := nsec, wf := [], action := none, org := none, app := none,
    appFeature := none, feature := none, volume := none, machine := none, machineFeature := none,
    cluster := none, storageObject := none, mutation := none, sourceMachine := none,
    sourceApp := none, sourceOrg := none, command := none, roles := none, discharge := none }

end Macaroon
