/-
`Prohibits` of every registered caveat type, `CaveatSet.Validate`, `GetCaveats`.
One model function per Go method; result `[]` = the Go method returned nil.
Core Lean only.
-/
import Macaroon.Caveat.Access

namespace Macaroon

/-! ### resset.ResourceSet.Prohibits -/

namespace ResSet

/-- `match(entry, id)` for plain ids -/
def matchEq {K} [BEq K] (e id : K) : Bool := e == id
/-- `match(entry, id)` for `resset.Prefix` ids: equal or `strings.HasPrefix(id, entry)` -/
def matchPrefix (e id : Bytes) : Bool := e == id || e.isPrefixOf id

/-- entries consulted for `id`: the zero-id entry and every entry matching `id` -/
def matching {K} (isZero : K → Bool) (m : K → K → Bool) (rs : ResSet K) (id : K) : ResSet K :=
  rs.filter fun e => isZero e.1 || m e.1 id

/-- intersection of the masks, starting from all ones -/
def perm {K} (es : ResSet K) : Action := es.foldl (fun p e => p &&& e.2) 0xffff

/-- `rs.validate()`: the zero id may only appear alone -/
def mixedWildcard {K} (isZero : K → Bool) (rs : ResSet K) : Bool :=
  rs.any (fun e => isZero e.1) && rs.length != 1

def prohibits {K} (isZero : K → Bool) (m : K → K → Bool) (rs : ResSet K) (id : Option K) (act : Action) : Errs :=
  if mixedWildcard isZero rs then [.badCaveat]
  else match id with
    | none => [.resUnspecified]
    | some id =>
      let ms := matching isZero m rs id
      if ms.isEmpty then [.forResource]
      else if act.subset (perm ms) then [] else [.forAction]

def prohibitsStr (rs : ResSet Bytes) (id : Option Bytes) (act : Action) : Errs :=
  prohibits (fun k => k.isEmpty) matchEq rs id act
def prohibitsPrefix (rs : ResSet Bytes) (id : Option Bytes) (act : Action) : Errs :=
  prohibits (fun k => k.isEmpty) matchPrefix rs id act
def prohibitsU64 (rs : ResSet UInt64) (id : Option UInt64) (act : Action) : Errs :=
  prohibits (fun k => k == 0) matchEq rs id act

end ResSet

/-! ### time -/

namespace GoTime
/-- `unixToInternal`: seconds from year 1 to 1970 -/
def unixToInternal : Int := 62135596800

/-- absolute seconds of `time.Unix(sec, 0)`: `sec + unixToInternal` computed in `int64` (wraps) -/
def absOfUnix64 (sec : Int64) : Int := (sec + Int64.ofInt unixToInternal).toInt

/-- `t.After(u)` on (absolute seconds, nanoseconds) -/
def after (ts : Int) (tn : Nat) (us : Int) (un : Nat) : Bool := ts > us || (ts == us && tn > un)
def before (ts : Int) (tn : Nat) (us : Int) (un : Nat) : Bool := ts < us || (ts == us && tn < un)

def maxDuration : Int := 9223372036854775807
def minDuration : Int := -9223372036854775808

/-- `t.Sub(u)` : exact difference in nanoseconds, saturated to `int64` -/
def sub (ts : Int) (tn : Nat) (us : Int) (un : Nat) : Int :=
  let d := (ts - us) * 1000000000 + ((tn : Int) - (un : Int))
  if d > maxDuration then maxDuration else if d < minDuration then minDuration else d

/-- `time.Duration(c) * time.Second` for `c : uint64`: reinterpret as `int64`, multiply wrapping -/
def durationOfSecs (c : UInt64) : Int := (c.toInt64 * 1000000000).toInt
end GoTime

/-! ### flyio.Access -/

namespace Flyio

def featureLFSC : Bytes := Bytes.ofString "litefs-cloud"

/-- `flyio.MemberFeatures` (checked against the regenerated table in `Props/Generated`) -/
def memberFeatures : List (String × Action) :=
  [("addon", 31), ("authentication", 1), ("billing", 1), ("builder", 31), ("checks", 31),
   ("deletion", 0), ("document_signing", 0), ("domain", 31), ("litefs-cloud", 31),
   ("membership", 1), ("site", 31), ("wg", 31)]

def memberMask (feature : Bytes) : Option Action :=
  (memberFeatures.find? fun e => Bytes.ofString e.1 == feature).map (·.2)

def roleMember : UInt32 := 1
def roleAdmin : UInt32 := 0xFFFFFFFF

/-- `(*flyio.Access).GetPermittedRoles` -/
def permittedRoles (feature : Option Bytes) (act : Action) : List UInt32 :=
  match feature with
  | none => [roleMember]
  | some f =>
    match memberMask f with
    | some allowed => if act.subset allowed then [roleMember] else [roleAdmin]
    | none => [roleAdmin]

/-- the fields of a `flyio.Access` value -/
structure Req where
  action : Action
  org : Option UInt64
  app : Option UInt64
  appFeature : Option Bytes
  feature : Option Bytes
  volume : Option Bytes
  machine : Option Bytes
  machineFeature : Option Bytes
  mutation : Option Bytes
  sourceMachine : Option Bytes
  sourceApp : Option Bytes
  sourceOrg : Option Bytes
  cluster : Option Bytes
  command : Option (List Bytes)
  storageObject : Option Bytes
  deriving Repr, Inhabited

def Req.zero : Req :=
  { action := 0, org := none, app := none, appFeature := none, feature := none, volume := none,
    machine := none, machineFeature := none, mutation := none, sourceMachine := none,
    sourceApp := none, sourceOrg := none, cluster := none, command := none, storageObject := none }

def cnt (b : Bool) : Nat := if b then 1 else 0

/-- `(*flyio.Access).Validate` -/
def validate (f : Req) : Errs :=
  if f.org.isNone then [.resUnspecified] else
  let orgRes := cnt f.app.isSome + cnt f.feature.isSome + cnt f.storageObject.isSome
  if orgRes > 1 then [.resMutEx] else
  let appRes := cnt f.machine.isSome + cnt f.volume.isSome + cnt f.appFeature.isSome
  if appRes != 0 && f.app.isNone then [.resUnspecified] else
  if appRes > 1 then [.resMutEx] else
  if f.cluster.isSome && f.feature.isNone then [.resUnspecified] else
  if f.cluster.isSome && f.feature != some featureLFSC then [.invalidAccess] else
  let machRes := cnt f.command.isSome + cnt f.machineFeature.isSome
  if machRes != 0 && f.machine.isNone then [.resUnspecified] else
  if machRes > 1 then [.resMutEx] else
  []

/-- a `*flyio.Access` seen through the interfaces it implements (all of them) -/
def Req.toAccess (f : Req) (nowSec : Int) (nowNsec : Nat) : Access :=
  { nowSec, nowNsec, wf := validate f, action := some f.action, org := some f.org, app := some f.app,
    appFeature := some f.appFeature, feature := some f.feature, volume := some f.volume,
    machine := some f.machine, machineFeature := some f.machineFeature, cluster := some f.cluster,
    storageObject := some f.storageObject, mutation := some f.mutation,
    sourceMachine := some f.sourceMachine, sourceApp := some f.sourceApp, sourceOrg := some f.sourceOrg,
    command := some f.command, roles := some (permittedRoles f.feature f.action), discharge := none }

end Flyio

/-! ### auth.DischargeRequest helpers -/

namespace DischargeReq
def flyioUserIDs (d : DischargeReq) : List UInt64 := d.flyio.map (·.1)
def flyioOrgIDs (d : DischargeReq) : List UInt64 := d.flyio.flatMap (·.2)
def gitHubOrgIDs (d : DischargeReq) : List UInt64 := d.github.flatMap id
end DischargeReq

/-! ### Prohibits -/

/-- a resource-set caveat seen through a `resset.Access`-embedding getter:
both the getter and `GetAction` must be implemented -/
def viaGetter {K} (getter : Option (Option K)) (action : Option Action)
    (k : Option K → Action → Errs) : Errs :=
  match getter, action with
  | some id, some act => k id act
  | _, _ => [.invalidAccess]

/-- `flyio.Commands.Prohibits`, the search loop -/
def commandAllowed (allowed : List Command) (args : List Bytes) : Bool :=
  allowed.any fun c =>
    let a := c.argList
    !(a.length > args.length) && !(c.exact && a.length != args.length) && a == args.take a.length

/-- `flyio.AllowedRoles.Prohibits` -/
def allowedRolesProhibits (mask : UInt32) (a : Access) : Errs :=
  match a.roles with
  | none => [.invalidAccess]
  | some rs => if rs.any (fun p => mask &&& p == p) then [] else [.forRole]

/-- one field of `flyio.FlySrc` -/
def flySrcField (want : Bytes) (getter : Option (Option Bytes)) : Errs :=
  if want.isEmpty then [] else
  match getter with
  | none => [.invalidAccess]
  | some none => [.invalidAccess]
  | some (some v) => if want != v then [.unauthorized] else []

/-- first non-nil error of a sequence of checks (the Go code returns at the first failure) -/
def firstErr : List Errs → Errs
  | [] => []
  | e :: es => if e.isEmpty then firstErr es else e

def confineProhibits (a : Access) (present : DischargeReq → Bool) (ok : DischargeReq → Bool) : Errs :=
  match a.discharge with
  | none => [.invalidAccess]
  | some d => if !present d then [.confine] else if !ok d then [.confine] else []

variable {B : Type}

mutual
/-- `c.Prohibits(a)` -/
def prohibits : Cav B → Access → Errs
  | .organization id mask, a =>
    match a.org, a.action with
    | some o, some act =>
      match o with
      | none => [.resUnspecified]
      | some oid =>
        if id != 0 && id != oid then [.forResource]
        else if !act.subset mask then [.forAction] else []
    | _, _ => [.invalidAccess]
  | .apps rs, a => viaGetter a.app a.action (ResSet.prohibitsU64 rs)
  | .volumes rs, a => viaGetter a.volume a.action (ResSet.prohibitsStr rs)
  | .machines rs, a => viaGetter a.machine a.action (ResSet.prohibitsStr rs)
  | .machineFeatureSet rs, a => viaGetter a.machineFeature a.action (ResSet.prohibitsStr rs)
  | .featureSet rs, a => viaGetter a.feature a.action (ResSet.prohibitsStr rs)
  | .appFeatureSet rs, a => viaGetter a.appFeature a.action (ResSet.prohibitsStr rs)
  | .clusters rs, a => viaGetter a.cluster a.action (ResSet.prohibitsStr rs)
  | .storageObjects rs, a => viaGetter a.storageObject a.action (ResSet.prohibitsPrefix rs)
  | .mutations ms, a =>
    match a.mutation with
    | none => [.invalidAccess]
    | some none => [.resUnspecified]
    | some (some m) => if (ms.getD []).contains m then [] else [.forResource]
  | .isUser _, _ => []
  | .validityWindow nb na, a =>
    -- compared in unix seconds (after the repair of F10; before it, through time.Unix with int64 wrap-around)
    if a.nowSec > na.toInt || (a.nowSec == na.toInt && a.nowNsec > 0) then [.unauthorized]
    else if a.nowSec < nb.toInt then [.unauthorized]
    else []
  | .tp .., _ => [.badCaveat]
  | .bind .., _ => [.badCaveat]
  | .unregistered .., _ => [.badCaveat]
  | .flyioUserID .., _ => [.badCaveat]
  | .gitHubUserID .., _ => [.badCaveat]
  | .googleUserID .., _ => [.badCaveat]
  | .action mask, a =>
    match a.action with
    | none => [.invalidAccess]
    | some act => if act.subset mask then [] else [.forAction]
  | .ifPresent nilIfs ifs els, a =>
    match a.action with
    | none => [.invalidAccess]
    | some act =>
      if nilIfs then [.badCaveat] else
      let r := ifLoop ifs a
      if !r.2 && !act.subset els then [.forAction] else r.1
  | .fromMachine id, a =>
    match a.sourceMachine with
    | none => [.invalidAccess]
    | some none => [.invalidAccess]
    | some (some m) => if id != m then [.unauthorized] else []
  | .flySrc org app inst, a =>
    firstErr [flySrcField inst a.sourceMachine, flySrcField app a.sourceApp, flySrcField org a.sourceOrg]
  | .allowedRoles mask, a => allowedRolesProhibits mask a
  | .isMember, a => allowedRolesProhibits Flyio.roleMember a
  | .commands cs, a =>
    match a.command with
    | none => [.invalidAccess]
    | some none => [.resUnspecified]
    | some (some args) => if commandAllowed (cs.getD []) args then [] else [.forResource]
  | .confineUser id, a =>
    confineProhibits a (fun d => !d.flyio.isEmpty) (fun d => d.flyioUserIDs.contains id)
  | .confineOrganization id, a =>
    confineProhibits a (fun d => !d.flyio.isEmpty) (fun d => d.flyioOrgIDs.contains id)
  | .confineGoogleHD hd, a =>
    confineProhibits a (fun d => !d.google.isEmpty) (fun d => d.google.contains hd)
  | .confineGitHubOrg id, a =>
    confineProhibits a (fun d => !d.github.isEmpty) (fun d => d.gitHubOrgIDs.contains id)
  | .maxValidity secs, a =>
    match a.discharge with
    | none => [.invalidAccess]
    | some d =>
      if GoTime.sub d.expirySec d.expiryNsec a.nowSec a.nowNsec > GoTime.durationOfSecs secs
      then [.unauthorized] else []
/-- the loop of `IfPresent.Prohibits`: (accumulated error, ifBranch) -/
def ifLoop : CavList B → Access → Errs × Bool
  | .nil, _ => ([], false)
  | .cons c cs, a =>
    let e := prohibits c a
    let r := ifLoop cs a
    if e.is .resUnspecified then r else (e ++ r.1, true)
end

/-- `cs.validateAccess(a)` -/
def validateAccess (cs : List (Cav B)) (a : Access) : Errs :=
  cs.flatMap fun c => if c.isAttestation then [] else prohibits c a

/-- `macaroon.Validate(cs, accesses...)` -/
def validate (cs : List (Cav B)) (as : List Access) : Errs :=
  as.flatMap fun a => if !a.wf.isEmpty then a.wf else validateAccess cs a

mutual
/-- `macaroon.GetCaveats[T]` for the predicate "is of Go type T": the caveats themselves and,
recursively, the contents of wrappers, in Go's order -/
def getCaveats (p : Cav B → Bool) : List (Cav B) → List (Cav B)
  | [] => []
  | c :: cs => (if p c then [c] else []) ++ unwrapGet p c ++ getCaveats p cs
def unwrapGet (p : Cav B → Bool) : Cav B → List (Cav B)
  | .ifPresent _ ifs _ => getCaveatsL p ifs
  | _ => []
def getCaveatsL (p : Cav B → Bool) : CavList B → List (Cav B)
  | .nil => []
  | .cons c cs => (if p c then [c] else []) ++ unwrapGet p c ++ getCaveatsL p cs
end

end Macaroon
