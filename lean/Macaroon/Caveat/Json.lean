/-
JSON half of C11: the composite `CaveatSet.UnmarshalJSON ∘ CaveatSet.MarshalJSON` at the level of
caveat VALUES.  JSON text and `encoding/json` are not modelled (trusted, exercised by family
`json`); what is modelled is which value comes back for each caveat kind:

* every action mask that is rendered through `resset.Action.String()` — the `Action` caveat,
  `IfPresent.Else`, `Organization.Mask`, every value of every `ResourceSet` — keeps only the five
  defined bits r,w,c,d,C (`mask &&& 31`): `String()` prints only those letters and
  `ActionFromString` reads only those letters back (`"*"` is never printed);
* integers (uint64 ids also above 2^53, int64 window bounds, uint32 role masks, the big decimal of
  `GoogleUserID`), strings, `[]string` (nil ↦ `null` ↦ nil, empty ↦ `[]` ↦ empty), `[]byte` fields
  (base64; nil ↦ `null` ↦ nil), `Command.Exact` (`omitempty`), nil/empty resource maps
  (`null`/`{}`; the model's association list does not distinguish them, neither does clearing),
  integer map keys (rendered as decimal strings and parsed back exactly) come back unchanged;
* `IfPresent.Ifs` is rendered recursively (`null` for a nil pointer, which reads back as nil); an
  error anywhere inside is an error of the whole;
* an `UnregisteredCaveat` that was decoded from MessagePack has no `RawJSON`: its `MarshalJSON`
  fails ("cannot convert unregistered caveats from msgpack to JSON") and with it the marshalling of
  the whole set, at any nesting depth.  This is the only failure on the way out;
* `GoogleUserID` is rendered as its decimal text; `GoogleUserID.UnmarshalJSON` refuses text longer
  than 128 characters ("bad bigint: too long", `maxGoogleUserIDDigits`; decimal parsing is
  quadratic) BEFORE parsing it.  The model's value is the magnitude `n : Nat` (what the wire
  carries: `big.Int.Bytes`), so the text has more than 128 characters exactly when `n ≥ 10^128`:
  the second failure of the round trip (`JsonErr.tooLong`), on the way IN.  MessagePack-born ids
  can be that large.  Marshalling of the WHOLE set (every nesting depth) comes first, so when a set
  holds both an unregistered caveat and such an id — in whatever order — the error is the
  unregistered one (`JsonErr.merge`).  (A negative `big.Int` exists only as a hand-built Go value
  or JSON-born text; its `-` counts as a character on the Go side, so for `10^127 ≤ |n| < 10^128`
  the code refuses what the magnitude-only model accepts: outside the value space, judged by the
  family without the model.)
* a nil `flyio.Commands` (and a nil `BindToParentToken`) renders as `"body":null`; on the
  unrepaired tree that reads back as a nil `Caveat` (finding F4).  The model has the repaired
  behaviour: identity.
* type names: every registered type is written under its `Name()` and read back through the same
  table (`typeNames`, `caveatTypeToString`, `caveatTypeFromString` below; aliases only matter on
  the way in).

Hypothesis of the property (not of the model's theorems, but of the model's fidelity): text fields
are valid UTF-8.  `encoding/json` replaces invalid bytes by U+FFFD; the family generates valid UTF-8
only.
Core Lean only.
-/
import Macaroon.Caveat.Prohibits

namespace Macaroon

/-- the two ways the round trip fails: `json.Marshal` of the set, or `json.Unmarshal` of its text -/
inductive JsonErr
  | unregistered     -- on the way out: "cannot convert unregistered caveats from msgpack to JSON"
  | tooLong          -- on the way in: "bad bigint: too long" (a `GoogleUserID` of more than 128 characters)
  deriving DecidableEq, Repr, Inhabited

/-- two failing members of one set: marshalling of the whole set precedes all reading, so the
marshalling error is the one reported whenever there is one -/
def JsonErr.merge : JsonErr → JsonErr → JsonErr
  | .tooLong, .tooLong => .tooLong
  | _, _ => .unregistered

namespace Json

/-- `ActionFromString (a.String())`: only the five defined bits survive -/
@[inline] def maskRT (a : Action) : Action := a &&& Action.all

/-- `maxGoogleUserIDDigits = 128`: the least magnitude whose decimal text `UnmarshalJSON` refuses -/
def googleIDLimit : Nat := 10 ^ 128

/-- a `ResourceSet[K, Action]` after the round trip: same keys, every mask through `maskRT` -/
def ressetRT {K} (rs : ResSet K) : ResSet K := rs.map fun e => (e.1, maskRT e.2)

end Json

open Json
variable {B : Type}

mutual
/-- one caveat through `json.Marshal` (inside `CaveatSet.MarshalJSON`) and back through
`json.Unmarshal` into `typeToCaveat(caveatTypeFromString(name))` -/
def jsonRT : Cav B → Except JsonErr (Cav B)
  | .organization id mask => .ok (.organization id (maskRT mask))
  | .volumes rs => .ok (.volumes (ressetRT rs))
  | .apps rs => .ok (.apps (ressetRT rs))
  | .validityWindow nb na => .ok (.validityWindow nb na)
  | .featureSet rs => .ok (.featureSet (ressetRT rs))
  | .mutations ms => .ok (.mutations ms)
  | .machines rs => .ok (.machines (ressetRT rs))
  | .confineUser id => .ok (.confineUser id)
  | .confineOrganization id => .ok (.confineOrganization id)
  | .isUser id => .ok (.isUser id)
  | .tp loc vk ticket => .ok (.tp loc vk ticket)
  | .bind id => .ok (.bind id)
  | .ifPresent nilIfs ifs els =>
    match jsonRTL ifs with
    | .error e => .error e
    | .ok ifs' => .ok (.ifPresent nilIfs ifs' (maskRT els))
  | .machineFeatureSet rs => .ok (.machineFeatureSet (ressetRT rs))
  | .fromMachine id => .ok (.fromMachine id)
  | .clusters rs => .ok (.clusters (ressetRT rs))
  | .confineGoogleHD hd => .ok (.confineGoogleHD hd)
  | .confineGitHubOrg id => .ok (.confineGitHubOrg id)
  | .maxValidity secs => .ok (.maxValidity secs)
  | .isMember => .ok .isMember
  | .flyioUserID id => .ok (.flyioUserID id)
  | .gitHubUserID id => .ok (.gitHubUserID id)
  | .googleUserID n => if n < googleIDLimit then .ok (.googleUserID n) else .error .tooLong
  | .action mask => .ok (.action (maskRT mask))
  | .commands cs => .ok (.commands cs)
  | .appFeatureSet rs => .ok (.appFeatureSet (ressetRT rs))
  | .storageObjects rs => .ok (.storageObjects (ressetRT rs))
  | .allowedRoles mask => .ok (.allowedRoles mask)
  | .flySrc org app inst => .ok (.flySrc org app inst)
  | .unregistered _ _ => .error .unregistered
/-- the nested set of a conditional (`"ifs":[…]`) -/
def jsonRTL : CavList B → Except JsonErr (CavList B)
  | .nil => .ok .nil
  | .cons c cs =>
    match jsonRT c, jsonRTL cs with
    | .ok c', .ok cs' => .ok (.cons c' cs')
    | .error e, .ok _ => .error e
    | .ok _, .error e => .error e
    | .error e, .error e' => .error (e.merge e')
end

/-- `json.Unmarshal(json.Marshal(cs))` on a caveat set -/
def jsonRTs : List (Cav B) → Except JsonErr (List (Cav B))
  | [] => .ok []
  | c :: cs =>
    match jsonRT c, jsonRTs cs with
    | .ok c', .ok cs' => .ok (c' :: cs')
    | .error e, .ok _ => .error e
    | .ok _, .error e => .error e
    | .error e, .error e' => .error (e.merge e')

mutual
/-- no unregistered caveat at any depth: the set can be rendered to JSON -/
def Cav.marshalOK : Cav B → Bool
  | .unregistered _ _ => false
  | .ifPresent _ ifs _ => CavList.marshalOK ifs
  | _ => true
def CavList.marshalOK : CavList B → Bool
  | .nil => true
  | .cons c cs => Cav.marshalOK c && CavList.marshalOK cs
end

mutual
/-- no unregistered caveat and no Google id of more than 128 digits at any depth: the set can be
rendered to JSON and its text can be read back -/
def Cav.jsonOK : Cav B → Bool
  | .unregistered _ _ => false
  | .googleUserID n => decide (n < Json.googleIDLimit)
  | .ifPresent _ ifs _ => CavList.jsonOK ifs
  | _ => true
def CavList.jsonOK : CavList B → Bool
  | .nil => true
  | .cons c cs => Cav.jsonOK c && CavList.jsonOK cs
end

/-- a mask within the five defined bits -/
@[inline] def Action.isDefined (a : Action) : Bool := a &&& Action.all == a

mutual
/-- every action mask of the caveat, at any depth, lies within the five defined bits -/
def Cav.masksDefined : Cav B → Bool
  | .organization _ mask => Action.isDefined mask
  | .volumes rs | .featureSet rs | .machines rs | .machineFeatureSet rs | .clusters rs
  | .appFeatureSet rs | .storageObjects rs => rs.all fun e => Action.isDefined e.2
  | .apps rs => rs.all fun e => Action.isDefined e.2
  | .action mask => Action.isDefined mask
  | .ifPresent _ ifs els => CavList.masksDefined ifs && Action.isDefined els
  | _ => true
def CavList.masksDefined : CavList B → Bool
  | .nil => true
  | .cons c cs => Cav.masksDefined c && CavList.masksDefined cs
end

/-! ### type names (`caveat.go`: `t2s`, `s2t`, `caveatTypeToString`, `caveatTypeFromString`) -/

namespace Json

/-- `t2s`: numeric type ↦ `Name()` of the registered zero value -/
def typeNames : List (UInt64 × String) :=
  [(0, "Organization"), (2, "Volumes"), (3, "Apps"), (4, "ValidityWindow"), (5, "FeatureSet"),
   (6, "Mutations"), (7, "Machines"), (8, "ConfineUser"), (9, "ConfineOrganization"), (10, "IsUser"),
   (11, "3P"), (12, "BindToParentToken"), (13, "IfPresent"), (14, "MachineFeatureSet"),
   (15, "FromMachineSource"), (16, "Clusters"), (19, "ConfineGoogleHD"), (20, "ConfineGitHubOrg"),
   (21, "MaxValidity"), (22, "IsMember"), (23, "FlyioUserID"), (24, "GitHubUserID"),
   (25, "GoogleUserID"), (26, "Action"), (27, "Commands"), (28, "AppFeatureSet"),
   (29, "StorageObjects"), (30, "AllowedRoles"), (31, "FlySrc")]

/-- `RegisterCaveatJSONAlias` calls: alias ↦ numeric type -/
def typeAliases : List (String × UInt64) :=
  [("DeprecatedOrganization", 0), ("DeprecatedApps", 3), ("NoAdminFeatures", 22)]

def cavMinUserDefined : UInt64 := 0x1000000000000
def cavUnregistered : UInt64 := 0xffffffffffffffff

/-- `caveatTypeToString` -/
def caveatTypeToString (t : UInt64) : String :=
  match typeNames.lookup t with
  | some s => if t < cavMinUserDefined then s else toString t.toNat
  | none => toString t.toNat

/-- `strconv.ParseUint(s, 10, 64)`: one or more ASCII digits, value below 2^64 (leading zeros are
accepted, signs and underscores are not) -/
def parseUint64 (s : String) : Option UInt64 :=
  let cs := s.toList
  if cs.isEmpty || !cs.all (fun c => '0' ≤ c && c ≤ '9') then none
  else
    let n := cs.foldl (fun n c => n * 10 + (c.toNat - 48)) 0
    if n < 2 ^ 64 then some (UInt64.ofNat n) else none

/-- `s2t`: names and aliases -/
def typeOfName (s : String) : Option UInt64 :=
  match typeNames.find? (fun e => e.2 == s) with
  | some e => some e.1
  | none => typeAliases.lookup s

/-- `caveatTypeFromString` -/
def caveatTypeFromString (s : String) : UInt64 :=
  match typeOfName s with
  | some t => t
  | none =>
    match parseUint64 s with
    | some t => t
    | none => cavUnregistered

end Json
end Macaroon
