/-
Declarative rules stated by the properties, as executable predicates, for the places where the
code-shaped model is only proved equal to the rule under a hypothesis.  The driver evaluates
them (`spec.*` operations) against the implementation's answer: a disagreement is a concrete
input on which the property fails.
Core Lean only.
-/
import Macaroon.Caveat.Prohibits

namespace Macaroon.Spec
open Macaroon
variable {B : Type}

/-- C10: the request instant lies within the window `[nb, na]`, on exact instants -/
def inWindow (nb na : Int) (sec : Int) (nsec : Nat) : Bool :=
  decide (nb ≤ sec) && (decide (sec < na) || (sec == na && nsec == 0))

/-- the property's rule for a caveat, where it differs in form from the model; `none` = the
model function itself is the rule (proved equivalent without hypotheses) -/
def permits : Cav B → Access → Option Bool
  | .validityWindow nb na, a => some (inWindow nb.toInt na.toInt a.nowSec a.nowNsec)
  | _, _ => none

end Macaroon.Spec
