/-
Model of package `bundle` (C13): /repo/bundle/{bundle,tokens,token,filter,verifier}.go and
/repo/flyio/bundle.go.

Two layers.

* Value level.  `Bundle = { permLoc, ts : List Tok }`, a token being
  `nonMac s | malformed s | unverified s m | verified s m cs | failed s m` (`s` the token's text,
  `m` the decoded macaroon, `cs` the verified caveats).  Every operation of the Go type is a total
  function on these values; the theorems of `Props/C13.lean` are about them.
* Object level.  In Go a token is a pointer: `Select` hands the *same* `*UnverifiedMacaroon`s to the
  derived bundle, `Verify` puts a fresh `*VerifiedMacaroon`/`*FailedMacaroon` wrapper around the same
  `*UnverifiedMacaroon` into the slot of the bundle it is called on, and `Attenuate` writes
  `Str`/`UnsafeMac` into the shared `*UnverifiedMacaroon` and `Caveats` into the wrapper.  `Heap`
  holds these two kinds of object, a bundle is a list of `Ref`s, and every object-level operation is
  the value-level operation on the bundle's `view`, followed by writing the result back through the
  references (so that the effect is visible through every bundle that holds the same object).

Token text is a `List Char` (code points, as in `Format/Header.lean`); a token reaches
`macaroon.Decode` through the header tokeniser of C19 (`Header.parseToks`) and the concrete codec
(`Concrete.decode`), so the model works on real header strings.

Core Lean only: this file is imported by the compiled driver.
-/
import Macaroon.Token.Concrete
import Macaroon.Format.Header
import Macaroon.Flyio.Scopes
import Macaroon.Crypto.Symbolic

namespace Macaroon
namespace Bundle

abbrev Str := List Char
abbrev CS := List (Cav Bytes)
abbrev M := Mac Bytes

/- decidable equality of decoded macaroons (for `Cav` it is derived in Crypto/Symbolic.lean): used by
`readsBack` below -/
deriving instance DecidableEq for GNonce, Mac

/-- the printed text of a freshly minted token reads back as the token that is stored.  `Attenuate`
and `Discharge` keep the in-memory macaroon next to the text they print for it; in Go the two cannot
differ (a resource set is a map: the in-memory value has no element order, the encoder sorts), in
the model they differ exactly when a caller-supplied caveat is not in the canonical form the decoder
produces (an unsorted resource-set list, …) or exceeds what the codec model reads back (nesting
beyond the decoder's budget, lengths ≥ 2³²).  The model's `attenuate` / `discharge` are defined on
the inputs for which this holds and fail closed on the others, so that "a token's macaroon is what its
text decodes to" is an invariant of every bundle (`Lemmas/Bundle.lean: Synced`). -/
def readsBack (bytes : Bytes) (m : M) : Bool := decide (Concrete.decode bytes = some m)

/-! ### Tokens -/

/-- `bundle.Token`: `NonMacaroon`, `*MalformedMacaroon`, `*UnverifiedMacaroon`, `*VerifiedMacaroon`,
`*FailedMacaroon` (errors reduced to their presence) -/
inductive Tok
  | nonMac (s : Str)
  | malformed (s : Str)
  | unverified (s : Str) (m : M)
  | verified (s : Str) (m : M) (cs : CS)
  | failed (s : Str) (m : M)

namespace Tok

/-- `Token.String()` -/
def str : Tok → Str
  | nonMac s => s
  | malformed s => s
  | unverified s _ => s
  | verified s _ _ => s
  | failed s _ => s

/-- `Macaroon.UnsafeMacaroon()` for the three macaroon kinds -/
def mac? : Tok → Option M
  | unverified _ m => some m
  | verified _ m _ => some m
  | failed _ m => some m
  | _ => none

def isNonMac : Tok → Bool | nonMac _ => true | _ => false
def isMalformed : Tok → Bool | malformed _ => true | _ => false
def isUnverified : Tok → Bool | unverified .. => true | _ => false
def isVerified : Tok → Bool | verified .. => true | _ => false
def isFailed : Tok → Bool | failed .. => true | _ => false
/-- `IsWellFormedMacaroon` = implements `Macaroon` -/
def isWellFormed (t : Tok) : Bool := t.mac?.isSome

/-- `VerifiedMacaroon.Caveats` -/
def cs? : Tok → Option CS
  | verified _ _ cs => some cs
  | _ => none

/-- implements `badToken` (has an `Error()`) -/
def isBad : Tok → Bool
  | malformed _ => true
  | failed .. => true
  | _ => false

/-- `perm.Unverified()` as a value -/
def unverify : Tok → Tok
  | verified s m _ => unverified s m
  | failed s m => unverified s m
  | t => t

/-- one-letter kind (driver / fidelity observable) -/
def kind : Tok → Char
  | nonMac _ => 'N'
  | malformed _ => 'M'
  | unverified .. => 'U'
  | verified .. => 'V'
  | failed .. => 'F'

end Tok

/-- `LocationFilter(loc).Predicate()`: a macaroon whose location is `loc` -/
def isPermAt (loc : Bytes) (t : Tok) : Bool :=
  match t.mac? with
  | some m => decide (m.loc = loc)
  | none => false

/-- a well-formed macaroon that is not a permission token (`dischargesByTicket`'s third case) -/
def isDisAt (loc : Bytes) (t : Tok) : Bool := t.isWellFormed && !isPermAt loc t

/-- `string(m.Nonce().KID)` -/
def Tok.kid? (t : Tok) : Option Bytes := t.mac?.map (·.nonce.kid)

/-- `m.ThirdPartyTickets()` flattened: (location, ticket) in caveat order -/
def ticketsOf (m : M) : List (Bytes × Bytes) := tickets3P m.cavs

def Tok.tickets (t : Tok) : List (Bytes × Bytes) :=
  match t.mac? with
  | some m => ticketsOf m
  | none => []

/-! ### Parsing and printing -/

/-- the macaroon half of `parseToks`: what `macaroon.Decode` makes of a part that reached it -/
def ofHeaderTok : Header.Tok → Tok
  | .nonMacaroon s => .nonMac s
  | .malformedB64 s => .malformed s
  | .macaroonBytes s raw =>
    match Concrete.decode raw with
    | none => .malformed s
    | some m => .unverified s m

/-- Go `bundle.parseToks` -/
def parseToks (hdr : Str) : List Tok := (Header.parseToks hdr).map ofHeaderTok

/-- Go `tokens.String()` -/
def tokString (ts : List Tok) : Str := Header.joinWith ',' (ts.map Tok.str)

/-- Go `tokens.Header()` -/
def headerOf (ts : List Tok) : Str :=
  match ts with
  | [] => []
  | _ :: _ => Header.schemeFlyV1 ++ ' ' :: tokString ts

/-- Go `tokens.Error() != nil` -/
def hasError (ts : List Tok) : Bool := ts.any Tok.isBad

/-- `m.String()`: `fm2_` + base64 of the encoding -/
def macString (bytes : Bytes) : Str := Header.entry Header.labelV2 bytes

/-! ### Ticket bookkeeping (`dischargesByTicket`, `dischargesByPermission`, …) -/

/-- `dbt[string(ticket)]`: the bundle's discharge tokens with that key-id, in bundle order -/
def dischargesFor (pl : Bytes) (ts : List Tok) (ticket : Bytes) : List Tok :=
  ts.filter fun d => isDisAt pl d && decide (d.kid? = some ticket)

/-- `dbp[p]`: for every ticket of `p` (caveat order) the discharges carrying it.  Go walks the
tickets grouped by location in map order; verification does not depend on the relative order of
candidates for different tickets (`Lemmas/Bundle.lean: verify_byTicket_congr`). -/
def dischargesOf (pl : Bytes) (ts : List Tok) (p : Tok) : List Tok :=
  p.tickets.flatMap fun lt => dischargesFor pl ts lt.2

/-- `len(pbd[d]) > 0`: some permission token of the list has a ticket equal to `d`'s key-id -/
def hasPermFor (pl : Bytes) (ts : List Tok) (d : Tok) : Bool :=
  ts.any fun p => isPermAt pl p && p.tickets.any fun lt => decide (d.kid? = some lt.2)

/-- undischarged (location, ticket) pairs: permission tokens in order, tickets in caveat order -/
def undischarged (pl : Bytes) (ts : List Tok) : List (Bytes × Bytes) :=
  (ts.filter (isPermAt pl)).flatMap fun p =>
    p.tickets.filter fun lt => (dischargesFor pl ts lt.2).isEmpty

/-- `undischargedTicketsByLocation(isPerm)[loc]` -/
def undischargedAt (pl : Bytes) (ts : List Tok) (loc : Bytes) : List Bytes :=
  ((undischarged pl ts).filter fun lt => decide (lt.1 = loc)).map (·.2)

/-! ### The Fly.io locations (flyio/flyio.go; checked against the regenerated constants in Props/C13) -/

/-- `flyio.LocationPermission` -/
def flyioPermission : Bytes := Header.asciiBytes Header.flyioLocationPermission
/-- `flyio.LocationAuthentication` -/
def flyioAuthentication : Bytes := Header.asciiBytes "https://api.fly.io/aaa/v1".toList
/-- `flyio.LocationNewAuthentication` -/
def flyioNewAuthentication : Bytes := Header.asciiBytes "https://auth.fly.io".toList
/-- `flyio.LocationSecrets` -/
def flyioSecrets : Bytes := Header.asciiBytes "https://api.fly.io/secrets/v1".toList

/-- the body of `flyio.IsForOrgUnverified(oid)`: a macaroon at the Fly.io permission location whose
UNVERIFIED caveats have the organization scope `oid` exactly (`OrganizationScope` without error) -/
def forOrgUnverified (oid : UInt64) (t : Tok) : Bool :=
  isPermAt flyioPermission t &&
  match t.mac? with
  | some m =>
    match Flyio.organizationScope m.cavs with
    | .ok o => o == oid
    | .error _ => false
  | none => false

/-! ### Filters -/

/-- the exported filter vocabulary as data.  In Go `And/Or/Not` take predicates only; here they
combine keep-masks pointwise, which is the same thing on predicates. -/
inductive Filter
  | keepAll | keepNone
  | isPerm                       -- `b.IsPermissionToken`
  | location (l : Bytes)         -- `LocationFilter(l)`
  | isVerified | isUnverified | isFailed | isMalformed | isNonMacaroon | isWellFormed
  | and (a b : Filter) | or (a b : Filter) | not (a : Filter)
  | withDischarges (f : Filter)  -- `b.WithDischarges(f)`
  | isMissingDischarge (loc : Bytes)
  | allowsAccess (rs : List Access)
  | default                      -- `DefaultFilter(b.IsPermissionToken)`
  | isForOrgUnverified (oid : UInt64)   -- `flyio.IsForOrgUnverified(oid)`

/-- does `p` (a permission token) carry a ticket for location `loc` that no discharge answers -/
def missingAt (pl : Bytes) (ts : List Tok) (loc : Bytes) (p : Tok) : Bool :=
  p.tickets.any fun lt => decide (lt.1 = loc) && (dischargesFor pl ts lt.2).isEmpty

/-- which positions of `ts` the filter keeps (filters never reorder) -/
def Filter.mask (pl : Bytes) : Filter → List Tok → List Bool
  | .keepAll, ts => ts.map fun _ => true
  | .keepNone, ts => ts.map fun _ => false
  | .isPerm, ts => ts.map (isPermAt pl)
  | .location l, ts => ts.map (isPermAt l)
  | .isVerified, ts => ts.map Tok.isVerified
  | .isUnverified, ts => ts.map Tok.isUnverified
  | .isFailed, ts => ts.map Tok.isFailed
  | .isMalformed, ts => ts.map Tok.isMalformed
  | .isNonMacaroon, ts => ts.map Tok.isNonMac
  | .isWellFormed, ts => ts.map Tok.isWellFormed
  | .and a b, ts => List.zipWith (· && ·) (a.mask pl ts) (b.mask pl ts)
  | .or a b, ts => List.zipWith (· || ·) (a.mask pl ts) (b.mask pl ts)
  | .not a, ts => (a.mask pl ts).map (!·)
  | .allowsAccess rs, ts => ts.map fun t =>
      match t.cs? with
      | some cs => (validate cs rs).isEmpty
      | none => false
  | .default, ts => ts.map fun t => t.isNonMac || isPermAt pl t || (isDisAt pl t && hasPermFor pl ts t)
  | .isMissingDischarge loc, ts => ts.map fun t => isPermAt pl t && missingAt pl ts loc t
  | .isForOrgUnverified oid, ts => ts.map (forOrgUnverified oid)
  | .withDischarges f, ts =>
      let fm := f.mask pl ts
      -- the permission tokens selected by `f`
      let sel := ((ts.zip fm).filter fun tk => tk.2 && isPermAt pl tk.1).map (·.1)
      List.zipWith (fun t k => k || (isDisAt pl t && hasPermFor pl sel t)) ts fm

/-- keep the marked positions -/
def applyMask {α : Type} : List Bool → List α → List α
  | true :: ks, x :: xs => x :: applyMask ks xs
  | false :: ks, _ :: xs => applyMask ks xs
  | _, _ => []

/-- `f.Apply(ts)` -/
def Filter.apply (pl : Bytes) (f : Filter) (ts : List Tok) : List Tok := applyMask (f.mask pl ts) ts

/-- `flyio.IsPermissionToken` / `IsAuthToken` / `IsNewAuthToken` / `IsSecretsToken` -/
def Filter.flyioIsPermissionToken : Filter := .location flyioPermission
def Filter.flyioIsAuthToken : Filter := .location flyioAuthentication
def Filter.flyioIsNewAuthToken : Filter := .location flyioNewAuthentication
def Filter.flyioIsSecretsToken : Filter := .location flyioSecrets

/-- `flyio.IsForOrg(orgID)` = `AllowsAccess(&flyio.Access{OrgID: &orgID, Action: ActionNone})`;
`flyio.Access.Now()` is the wall clock `(sec, nsec)` -/
def Filter.flyioIsForOrg (oid : UInt64) (sec : Int) (nsec : Nat) : Filter :=
  .allowsAccess [(Flyio.orgReq oid).toAccess sec nsec]

/-! ### The bundle (value level) -/

structure Bundle where
  permLoc : Bytes
  ts : List Tok

namespace Bundle

/-- `ParseBundleWithFilter`: the bundle and whether an error was returned (computed before filtering) -/
def parseWith (pl : Bytes) (hdr : Str) (f : Filter) : Bundle × Bool :=
  let ts := parseToks hdr
  (⟨pl, f.apply pl ts⟩, hasError ts)

/-- `ParseBundle` -/
def parse (pl : Bytes) (hdr : Str) : Bundle × Bool := parseWith pl hdr .default

/-- `AddTokens`: all or nothing -/
def addTokens (b : Bundle) (hdr : Str) : Bundle × Bool :=
  let ts := parseToks hdr
  if hasError ts then (b, true) else ({ b with ts := b.ts ++ ts }, false)

/-- `Select` (as a value; the object level shares the tokens) -/
def select (b : Bundle) (f : Filter) : Bundle := { b with ts := f.apply b.permLoc b.ts }

/-- `Filter` -/
def filter (b : Bundle) (f : Filter) : Bundle := { b with ts := f.apply b.permLoc b.ts }

def header (b : Bundle) : Str := headerOf b.ts
def len (b : Bundle) : Nat := b.ts.length
/-- `Error() != nil` -/
def error? (b : Bundle) : Bool := hasError b.ts
def isPerm (b : Bundle) (t : Tok) : Bool := isPermAt b.permLoc t

/-- `UndischargedThirdPartyTickets` flattened -/
def undischargedTickets (b : Bundle) : List (Bytes × Bytes) := undischarged b.permLoc b.ts

/-- `UndischargedTicketsForThirdParty` -/
def undischargedTicketsFor (b : Bundle) (loc : Bytes) : List Bytes := undischargedAt b.permLoc b.ts loc

/-- `flyio.ParseBundle` / `flyio.ParseBundleWithFilter` -/
def flyioParse (hdr : Str) : Bundle × Bool := parse flyioPermission hdr
def flyioParseWith (hdr : Str) (f : Filter) : Bundle × Bool := parseWith flyioPermission hdr f

/-- what `flyio.UUIDs` / `flyio.NonceEmails` render: the nonces (key-id, randomness) of the tokens at
the Fly.io permission location, in bundle order (the UUID itself is SHA-1 based and not modelled) -/
def flyioNonces (b : Bundle) : List (Bytes × Bytes) :=
  (Filter.flyioIsPermissionToken.apply b.permLoc b.ts).filterMap fun t => t.mac?.map fun m => (m.nonce.kid, m.nonce.rnd)

/-- `Clone`: print and re-parse (verification state is lost, every token is classified afresh) -/
def clone (b : Bundle) : Bundle := { b with ts := parseToks b.header }

/-! #### verification -/

/-- what a `Verifier` answers for one permission token and its candidate discharges:
`some cs` = `VerifiedMacaroon` with caveats `cs`, `none` = `FailedMacaroon` -/
abbrev Oracle := Tok → List Tok → Option CS

/-- `KeyResolver`: key by key-id, and the trusted third-party keys by location -/
structure Resolver where
  key : Bytes → Option Bytes
  trusted : Bytes → List Bytes

/-- `KeyResolver.VerifyOne` on decoded macaroons -/
def Resolver.verifyMac (R : Resolver) (p : M) (ds : List M) : Option CS :=
  match R.key p.nonce.kid with
  | none => none
  | some k =>
    match Macaroon.verify k p ds R.trusted with
    | .ok cs => some cs
    | .error _ => none

/-- `KeyResolver.VerifyOne` -/
def Resolver.oracle (R : Resolver) : Oracle := fun p ds =>
  match p.mac? with
  | none => none
  | some m => R.verifyMac m (ds.filterMap Tok.mac?)

/-- the result slot for a permission token -/
def verdict (t : Tok) (r : Option CS) : Tok :=
  match t.mac?, r with
  | some m, some cs => .verified t.str m cs
  | some m, none => .failed t.str m
  | none, _ => t

/-- the new token list of `tokens.Verify`: every permission token is replaced by its result -/
def verifyTs (pl : Bytes) (o : Oracle) (ts : List Tok) : List Tok :=
  ts.map fun t => if isPermAt pl t then verdict t (o t (dischargesOf pl ts t)) else t

/-- `Bundle.Verify` with an arbitrary verifier -/
def verifyBy (b : Bundle) (o : Oracle) : Bundle := { b with ts := verifyTs b.permLoc o b.ts }

/-- `Bundle.Verify(ctx, resolver)` -/
def verify (b : Bundle) (R : Resolver) : Bundle := b.verifyBy R.oracle

/-- the `[]*CaveatSet` that `Verify` returns (empty = the error "no verified tokens") -/
def verifiedSets (b : Bundle) : List CS := b.ts.filterMap Tok.cs?

/-- `Bundle.Validate(accesses...) == nil`: some verified token clears every request -/
def validate (b : Bundle) (rs : List Access) : Bool :=
  b.verifiedSets.any fun cs => (Macaroon.validate cs rs).isEmpty

/-! #### attenuation -/

/-- the per-token work of `Attenuate`: clone (encode + decode), `Add`, print.
Result: new text, new macaroon, the caveats actually appended. -/
def attMac (items : List (AddItem Bytes)) (m : M) : Option (Str × M × CS) :=
  match (Concrete.encode m).2.bind Concrete.decode with
  | none => none
  | some c =>
    match add c items with
    | (_, some _) => none
    | (c', none) =>
      match Concrete.encode c' with
      | (_, none) => none
      | (c'', some bytes) =>
        if readsBack bytes c'' then some (macString bytes, c'', c'.cavs.drop c.cavs.length) else none

/-- the staged replacement of one permission token (`none` = this token failed) -/
def attTok (items : List (AddItem Bytes)) : Tok → Option Tok
  | .unverified _ m => (attMac items m).map fun r => .unverified r.1 r.2.1
  | .verified _ m cs => (attMac items m).map fun r => .verified r.1 r.2.1 (cs ++ r.2.2)
  | .failed _ m => (attMac items m).map fun r => .failed r.1 r.2.1
  | t => some t

/-- the new token list of `tokens.Attenuate`, `none` if any permission token failed -/
def attenuateTs (pl : Bytes) (items : List (AddItem Bytes)) (ts : List Tok) : Option (List Tok) :=
  ts.mapM fun t => if isPermAt pl t then attTok items t else some t

/-- `Bundle.Attenuate`: the bundle afterwards and whether an error was returned -/
def attenuate (b : Bundle) (items : List (AddItem Bytes)) : Bundle × Bool :=
  match attenuateTs b.permLoc items b.ts with
  | none => (b, true)
  | some ts => ({ b with ts }, false)

/-! #### discharging -/

/-- the `Discharger` callback: ticket caveats ↦ caveats for the discharge, or refusal -/
abbrev Discharger := CS → Option (List (AddItem Bytes))

/-- the loop body of `(*tokens).Discharge` for one ticket (`rnd` = nonce randomness drawn by
`DischargeTicket`) -/
def dischargeOne (loc ka : Bytes) (cb : Discharger) (ticket rnd : Bytes) : Option Tok :=
  match dischargeTicket ka loc ticket rnd true with
  | .error _ => none
  | .ok (tcavs, dm) =>
    match cb tcavs with
    | none => none
    | some items =>
      match add dm items with
      | (_, some _) => none
      | (dm', none) =>
        match Concrete.encode dm' with
        | (_, none) => none
        | (dm'', some bytes) => if readsBack bytes dm'' then some (.unverified (macString bytes) dm'') else none

/-- which tickets `Discharge(loc, …)` works on -/
inductive DischargeScope
  /-- the code as it is (F6): the undischarged tickets of EVERY location (Go: locations in map
  order; here in order of appearance) -/
  | everyLocation
  /-- the documented contract, and the code after the repair: `ubl[tpLocation]` only -/
  | thatLocation
  deriving DecidableEq, Repr

/-- distinct locations in order of first appearance -/
def locsOf : List (Bytes × Bytes) → List Bytes → List Bytes
  | [], _ => []
  | lt :: rest, seen => if seen.contains lt.1 then locsOf rest seen else lt.1 :: locsOf rest (lt.1 :: seen)

def ticketsInScope (sc : DischargeScope) (pl : Bytes) (ts : List Tok) (loc : Bytes) : List Bytes :=
  match sc with
  | .thatLocation => undischargedAt pl ts loc
  | .everyLocation =>
    let u := undischarged pl ts
    (locsOf u []).flatMap fun l => (u.filter fun lt => decide (lt.1 = l)).map (·.2)

/-- the tickets paired with the randomness of the call -/
def withRnd (tickets : List Bytes) (rnds : List Bytes) : List (Bytes × Bytes) :=
  (List.range tickets.length).zipWith (fun i t => (t, rnds.getD i [])) tickets

/-- the discharges minted by one `Discharge` call, `none` if any ticket failed -/
def newDischarges (sc : DischargeScope) (pl : Bytes) (ts : List Tok) (loc ka : Bytes) (cb : Discharger)
    (rnds : List Bytes) : Option (List Tok) :=
  (withRnd (ticketsInScope sc pl ts loc) rnds).mapM fun tr => dischargeOne loc ka cb tr.1 tr.2

/-- `Bundle.Discharge(loc, ka, cb)` -/
def dischargeWith (sc : DischargeScope) (b : Bundle) (loc ka : Bytes) (cb : Discharger) (rnds : List Bytes) :
    Bundle × Bool :=
  match newDischarges sc b.permLoc b.ts loc ka cb rnds with
  | none => (b, true)
  | some ds => ({ b with ts := b.ts ++ ds }, false)

/-- the documented behaviour (and the code after the repair of F6) -/
def discharge := dischargeWith .thatLocation
/-- the code as it is on the unrepaired tree (F6) -/
def dischargeF6 := dischargeWith .everyLocation

end Bundle

/-! ### Object level -/

/-- a `*UnverifiedMacaroon` -/
structure UObj where
  s : Str
  m : M

/-- the objects tokens point to: `us` the `*UnverifiedMacaroon`s, `vs` the `Caveats` field of the
`*VerifiedMacaroon` wrappers (a wrapper's embedded `*UnverifiedMacaroon` never changes and is kept
in the reference) -/
structure Heap where
  us : List UObj
  vs : List CS

def Heap.empty : Heap := ⟨[], []⟩

/-- a slot of a bundle's token slice -/
inductive Ref
  | nonMac (s : Str)
  | malformed (s : Str)
  | unv (u : Nat)
  | ver (v u : Nat)
  | fail (u : Nat)
  deriving DecidableEq, Repr

def dummyMac : M := { nonce := ⟨[], [], 1, false⟩, loc := [], cavs := [], tail := [], newProof := false }

def Heap.u (h : Heap) (i : Nat) : UObj := h.us.getD i ⟨[], dummyMac⟩
def Heap.v (h : Heap) (i : Nat) : CS := h.vs.getD i []

/-- the token a reference denotes -/
def Heap.tok (h : Heap) : Ref → Tok
  | .nonMac s => .nonMac s
  | .malformed s => .malformed s
  | .unv u => .unverified (h.u u).s (h.u u).m
  | .ver v u => .verified (h.u u).s (h.u u).m (h.v v)
  | .fail u => .failed (h.u u).s (h.u u).m

def Heap.view (h : Heap) (rs : List Ref) : List Tok := rs.map h.tok

/-- the underlying `*UnverifiedMacaroon` of a macaroon slot (`Unverified()`) -/
def Ref.u? : Ref → Option Nat
  | .unv u => some u
  | .ver _ u => some u
  | .fail u => some u
  | _ => none

/-- allocate fresh objects for freshly built tokens -/
def Heap.alloc (h : Heap) : List Tok → Heap × List Ref
  | [] => (h, [])
  | t :: ts =>
    let (h1, r) : Heap × Ref :=
      match t with
      | .nonMac s => (h, .nonMac s)
      | .malformed s => (h, .malformed s)
      | .unverified s m => ({ h with us := h.us ++ [⟨s, m⟩] }, .unv h.us.length)
      | .verified s m cs => ({ us := h.us ++ [⟨s, m⟩], vs := h.vs ++ [cs] }, .ver h.vs.length h.us.length)
      | .failed s m => ({ h with us := h.us ++ [⟨s, m⟩] }, .fail h.us.length)
    let (h2, rs) := h1.alloc ts
    (h2, r :: rs)

/-- write the fields of a token into the objects its slot points to (the second loop of `Attenuate`) -/
def Heap.store (h : Heap) : Ref → Tok → Heap
  | .unv u, .unverified s m => { h with us := h.us.set u ⟨s, m⟩ }
  | .ver v u, .verified s m cs => { us := h.us.set u ⟨s, m⟩, vs := h.vs.set v cs }
  | .fail u, .failed s m => { h with us := h.us.set u ⟨s, m⟩ }
  | _, _ => h

def Heap.storeAll (h : Heap) : List Ref → List Tok → Heap
  | r :: rs, t :: ts => (h.store r t).storeAll rs ts
  | _, _ => h

/-- a bundle as Go holds it: its permission location and its slice of token pointers -/
structure HBundle where
  permLoc : Bytes
  rs : List Ref

namespace HBundle

def view (h : Heap) (b : HBundle) : Bundle := ⟨b.permLoc, h.view b.rs⟩

def parseWith (h : Heap) (pl : Bytes) (hdr : Str) (f : Filter) : Heap × HBundle × Bool :=
  let ts := parseToks hdr
  let (h', rs) := h.alloc ts
  (h', ⟨pl, applyMask (f.mask pl ts) rs⟩, hasError ts)

def addTokens (h : Heap) (b : HBundle) (hdr : Str) : Heap × HBundle × Bool :=
  let ts := parseToks hdr
  if hasError ts then (h, b, true) else
  let (h', rs) := h.alloc ts
  (h', { b with rs := b.rs ++ rs }, false)

/-- `Select`: a new slice with the same pointers -/
def select (h : Heap) (b : HBundle) (f : Filter) : HBundle :=
  { b with rs := applyMask (f.mask b.permLoc (h.view b.rs)) b.rs }

def filter (h : Heap) (b : HBundle) (f : Filter) : HBundle := select h b f

/-- `Attenuate`: stage on values, then write through the pointers -/
def attenuate (h : Heap) (b : HBundle) (items : List (AddItem Bytes)) : Heap × Bool :=
  match Bundle.attenuateTs b.permLoc items (h.view b.rs) with
  | none => (h, true)
  | some ts => (h.storeAll b.rs ts, false)

def dischargeWith (sc : Bundle.DischargeScope) (h : Heap) (b : HBundle) (loc ka : Bytes) (cb : Bundle.Discharger)
    (rnds : List Bytes) : Heap × HBundle × Bool :=
  match Bundle.newDischarges sc b.permLoc (h.view b.rs) loc ka cb rnds with
  | none => (h, b, true)
  | some ds =>
    let (h', rs) := h.alloc ds
    (h', { b with rs := b.rs ++ rs }, false)

/-- one slot of `tokens.Verify` with a verifier that builds fresh result objects
(`&VerifiedMacaroon{perm.Unverified(), cavs}` / `&FailedMacaroon{perm.Unverified(), err}`) -/
def verifySlot (h : Heap) (r : Ref) (res : Option CS) : Heap × Ref :=
  match r.u? with
  | none => (h, r)
  | some u =>
    match res with
    | some cs => ({ h with vs := h.vs ++ [cs] }, .ver h.vs.length u)
    | none => (h, .fail u)

/-- `tokens.Verify` with a direct (non-caching) verifier: results are computed on the state before
the call, then each permission slot of THIS bundle is replaced.  The verifier's result map is keyed
by the token pointer, so two slots holding the same pointer (possible only after the sharing cache
handed one object out twice) receive the same result object: `memo`. -/
def verifyBy (h : Heap) (b : HBundle) (o : Bundle.Oracle) : Heap × HBundle :=
  let ts := h.view b.rs
  let step := fun (acc : Heap × List Ref × List (Ref × Ref)) (rt : Ref × Tok) =>
    if isPermAt b.permLoc rt.2 then
      match acc.2.2.lookup rt.1 with
      | some r' => (acc.1, acc.2.1 ++ [r'], acc.2.2)
      | none =>
        let (h', r') := verifySlot acc.1 rt.1 (o rt.2 (dischargesOf b.permLoc ts rt.2))
        (h', acc.2.1 ++ [r'], acc.2.2 ++ [(rt.1, r')])
    else (acc.1, acc.2.1 ++ [rt.1], acc.2.2)
  let (h', rs', _) := (b.rs.zip ts).foldl step (h, [], [])
  (h', { b with rs := rs' })

def clone (h : Heap) (b : HBundle) : Heap × HBundle :=
  let (h', rs) := h.alloc (parseToks (b.view h).header)
  (h', ⟨b.permLoc, rs⟩)

end HBundle

end Bundle
end Macaroon
