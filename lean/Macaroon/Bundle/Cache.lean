/-
Model of `bundle.VerificationCache` (C14): /repo/bundle/verifier.go.

The cache maps the key "candidate discharge strings (sorted, see `KeyOrder`), then the permission
string, joined by `,`" to a
successful verification result and an expiry.  Eviction is an ARBITRARY step (any entry may
disappear at any time: stronger than LRU), `now` is supplied per step.

Two semantics behind one parameter `Sem`:

* `.share` — the code as it is on the unrepaired tree (F7): the cache stores the very
  `*VerifiedMacaroon` that sits in the first bundle and hands the same pointer to every later
  bundle.  `Attenuate` writes through it.  This needs object identity: `HSys` runs on the `Heap` of
  `Bundle/Model.lean`.
* `.copy` — the repaired behaviour: the cache stores a copy of the verified caveats and, on a hit,
  builds a fresh `&VerifiedMacaroon{perm.Unverified(), copy}` around the REQUESTING bundle's own
  token.  Bundles then share nothing, and the system is the value-level `Sys` below; the theorems of
  `Props/C14.lean` are about `Sys`.  `HSys` with `.copy` is the same thing on objects (the driver
  runs both and reports any difference).

Core Lean only: this file is imported by the compiled driver.
-/
import Macaroon.Bundle.Model

namespace Macaroon
namespace Bundle
namespace Cache

/-! ### The key -/

/-- Go string order (bytes; on token text, which is ASCII, the same as code points) -/
def strLt : Str → Str → Bool
  | [], [] => false
  | [], _ :: _ => true
  | _ :: _, [] => false
  | a :: as, b :: bs => if a.toNat < b.toNat then true else if b.toNat < a.toNat then false else strLt as bs

/-- `m.Nonce().KID` of a candidate (the ticket it answers); empty for a token that is no macaroon -/
def kidOf (t : Tok) : Bytes := t.kid?.getD []

/-- how `(*VerificationCache).Verify` orders the candidate discharges before building the key and
calling the inner verifier (the slice is sorted IN PLACE, so the inner verifier sees that order) -/
inductive KeyOrder
  /-- the code as it is now: `slices.SortStableFunc` by `bytes.Compare` of the key-ids — candidates
  for different tickets get a canonical order, candidates for the SAME ticket keep theirs -/
  | byKid
  /-- the code as found: `slices.SortFunc` by the token text — two candidates for one ticket are
  reordered, and the first acceptable one wins (kept as the negative witness
  `text_sorted_key_not_transparent`) -/
  | byText
  deriving DecidableEq, Repr

/-- `y` sorts strictly before `x` -/
def before (ko : KeyOrder) (y x : Tok) : Bool :=
  match ko with
  | .byKid => Bytes.lt (kidOf y) (kidOf x)
  | .byText => strLt y.str x.str

/-- insert `x`, which stood in front of everything in the list, keeping it in front of its equals -/
def insertTok (ko : KeyOrder) (x : Tok) : List Tok → List Tok
  | [] => [x]
  | y :: ys => if before ko y x then y :: insertTok ko x ys else x :: y :: ys

/-- stable insertion sort -/
def sortToks (ko : KeyOrder) : List Tok → List Tok
  | [] => []
  | x :: xs => insertTok ko x (sortToks ko xs)

/-- `String(append(diss, perm)...)` after sorting the discharges: the key of a permission token
presented with candidate discharges -/
def keyOf (ko : KeyOrder) (p : Tok) (ds : List Tok) : Str :=
  Header.joinWith ',' ((sortToks ko ds).map Tok.str ++ [p.str])

/-! ### Value level (`.copy`) -/

structure Entry where
  key : Str
  cs : CS
  expiry : Int

abbrev Store := List Entry

/-- `cache.Get(k)` (recency is not modelled: eviction is arbitrary anyway) -/
def Store.get (c : Store) (k : Str) : Option Entry := c.find? fun e => decide (e.key = k)

/-- a usable entry: present and `expiration.After(now)` -/
def Store.hit (c : Store) (now : Int) (k : Str) : Option CS :=
  match c.get k with
  | some e => if now < e.expiry then some e.cs else none
  | none => none

/-- `cache.Add(k, entry)`: replaces an entry with the same key -/
def Store.add (c : Store) (e : Entry) : Store := (c.filter fun x => !decide (x.key = e.key)) ++ [e]

/-- an entry disappears (LRU pressure, `Purge`) -/
def Store.evict (c : Store) (k : Str) : Store := c.filter fun x => !decide (x.key = k)

/-- what the caching verifier answers: the stored caveats on a hit, else the inner verifier -/
def cachedOracle (ko : KeyOrder) (V : Bundle.Oracle) (c : Store) (now : Int) : Bundle.Oracle := fun p ds =>
  match c.hit now (keyOf ko p ds) with
  | some cs => some cs
  | none => V p (sortToks ko ds)

/-- the queries of one `Verify` call: every permission token with its candidate discharges -/
def queries (b : Bundle) : List (Tok × List Tok) :=
  (b.ts.filter (isPermAt b.permLoc)).map fun p => (p, dischargesOf b.permLoc b.ts p)

/-- the entries one `Verify` call adds: every miss that the inner verifier accepted -/
def newEntries (ko : KeyOrder) (V : Bundle.Oracle) (c : Store) (now ttl : Int) (qs : List (Tok × List Tok)) : List Entry :=
  qs.filterMap fun q =>
    match c.hit now (keyOf ko q.1 q.2) with
    | some _ => none
    | none =>
      match V q.1 (sortToks ko q.2) with
      | some cs => some ⟨keyOf ko q.1 q.2, cs, now + ttl⟩
      | none => none

/-- `(*VerificationCache).Verify` through `Bundle.Verify`: all look-ups first (against the store as
it was), then the inner verifier on the misses, then the insertions -/
def verifyCached (ko : KeyOrder) (V : Bundle.Oracle) (c : Store) (now ttl : Int) (b : Bundle) : Bundle × Store :=
  (b.verifyBy (cachedOracle ko V c now), (newEntries ko V c now ttl (queries b)).foldl Store.add c)

/-- how a history step verifies -/
inductive VMode
  | cached | direct
  deriving DecidableEq, Repr

/-- operations of a history over several live bundles -/
inductive Op
  | verify (i : Nat) (mode : VMode)
  | validate (i : Nat) (rs : List Access)
  | attenuate (i : Nat) (items : List (AddItem Bytes))
  | discharge (i : Nat) (loc ka : Bytes) (cb : Bundle.Discharger) (rnds : List Bytes)
  | filter (i : Nat) (f : Filter)
  | header (i : Nat)
  | tick
  | evict (k : Str)

/-- what an operation returns to its caller -/
inductive Out
  | none
  /-- whether the call returned an error -/
  | flag (err : Bool)
  | text (s : Str)
  | sets (l : List CS)

structure Sys where
  bundles : List Bundle
  store : Store

/-- static parameters of a run -/
structure Params where
  V : Bundle.Oracle
  ttl : Int
  scope : Bundle.DischargeScope := .thatLocation
  order : KeyOrder := .byKid

def emptyBundle : Bundle := ⟨[], []⟩

def Sys.get (s : Sys) (i : Nat) : Bundle := s.bundles.getD i emptyBundle
def Sys.set (s : Sys) (i : Nat) (b : Bundle) : Sys := { s with bundles := s.bundles.set i b }

/-- one step at time `now` -/
def step (P : Params) (now : Int) (s : Sys) : Op → Sys × Out
  | .verify i .direct =>
    let b := (s.get i).verifyBy P.V
    (s.set i b, .sets b.verifiedSets)
  | .verify i .cached =>
    let (b, c) := verifyCached P.order P.V s.store now P.ttl (s.get i)
    ({ s.set i b with store := c }, .sets b.verifiedSets)
  | .validate i rs => (s, .flag (!(s.get i).validate rs))
  | .attenuate i items =>
    let (b, e) := (s.get i).attenuate items
    (s.set i b, .flag e)
  | .discharge i loc ka cb rnds =>
    let (b, e) := Bundle.dischargeWith P.scope (s.get i) loc ka cb rnds
    (s.set i b, .flag e)
  | .filter i f => (s.set i ((s.get i).filter f), .none)
  | .header i => (s, .text (s.get i).header)
  | .tick => (s, .none)
  | .evict k => ({ s with store := s.store.evict k }, .none)

/-- a history: operations with the time at which each happens.  The trace records, per step, what
the operation returned and the state of EVERY bundle afterwards. -/
def run (P : Params) : List (Int × Op) → Sys → List (Out × List Bundle)
  | [], _ => []
  | (now, op) :: rest, s =>
    let (s', o) := step P now s op
    (o, s'.bundles) :: run P rest s'

/-- the same history with every verification done directly on the underlying verifier -/
def Op.direct : Op → Op
  | .verify i _ => .verify i .direct
  | op => op

/-! ### Object level (`.share` = the code as it is, `.copy` = repaired) -/

inductive Sem
  | share | copy
  deriving DecidableEq, Repr

/-- a stored `*cacheEntry`: the `*VerifiedMacaroon` (wrapper `v` around `u`) and the expiry -/
structure HEntry where
  key : Str
  v : Nat
  u : Nat
  expiry : Int

structure HSys where
  heap : Heap
  bundles : List HBundle
  store : List HEntry

def hget (c : List HEntry) (now : Int) (k : Str) : Option HEntry :=
  match c.find? fun e => decide (e.key = k) with
  | some e => if now < e.expiry then some e else none
  | none => none

def hadd (c : List HEntry) (e : HEntry) : List HEntry := (c.filter fun x => !decide (x.key = e.key)) ++ [e]

def emptyHBundle : HBundle := ⟨[], []⟩
def HSys.get (s : HSys) (i : Nat) : HBundle := s.bundles.getD i emptyHBundle
def HSys.set (s : HSys) (i : Nat) (b : HBundle) : HSys := { s with bundles := s.bundles.set i b }

/-- what one permission slot becomes, and what is queued for insertion -/
structure SlotAcc where
  heap : Heap
  rs : List Ref
  ins : List HEntry
  /-- results are keyed by the token pointer: a pointer that occurs twice gets one result -/
  memo : List (Ref × Ref) := []

/-- `(*VerificationCache).Verify` through `tokens.Verify` on objects -/
def hverifyCached (sem : Sem) (ko : KeyOrder) (V : Bundle.Oracle) (now ttl : Int) (s : HSys) (i : Nat) : HSys :=
  let b := s.get i
  let ts := s.heap.view b.rs
  let slot : SlotAcc → Ref × Tok → Nat → SlotAcc × Ref := fun acc rt u =>
    let ds := dischargesOf b.permLoc ts rt.2
    let k := keyOf ko rt.2 ds
    match hget s.store now k with
    | some e =>
      match sem with
      | .share => ({ acc with rs := acc.rs ++ [Ref.ver e.v e.u] }, Ref.ver e.v e.u)          -- `ret[perm] = v.vm`
      | .copy =>                                                                            -- fresh wrapper, own token
        ({ acc with heap := { acc.heap with vs := acc.heap.vs ++ [acc.heap.v e.v] },
                    rs := acc.rs ++ [Ref.ver acc.heap.vs.length u] }, Ref.ver acc.heap.vs.length u)
    | none =>
      match V rt.2 (sortToks ko ds) with
      | none => ({ acc with rs := acc.rs ++ [Ref.fail u] }, Ref.fail u)
      | some cs =>
        let v := acc.heap.vs.length
        match sem with
        | .share =>
          ({ acc with heap := { acc.heap with vs := acc.heap.vs ++ [cs] }, rs := acc.rs ++ [Ref.ver v u],
                      ins := acc.ins ++ [HEntry.mk k v u (now + ttl)] }, Ref.ver v u)
        | .copy =>
          ({ acc with heap := { acc.heap with vs := acc.heap.vs ++ [cs, cs] }, rs := acc.rs ++ [Ref.ver v u],
                      ins := acc.ins ++ [HEntry.mk k (v + 1) u (now + ttl)] }, Ref.ver v u)
  let step := fun (acc : SlotAcc) (rt : Ref × Tok) =>
    if isPermAt b.permLoc rt.2 then
      match rt.1.u? with
      | none => { acc with rs := acc.rs ++ [rt.1] }
      | some u =>
        match acc.memo.lookup rt.1 with
        | some r' => { acc with rs := acc.rs ++ [r'] }
        | none =>
          let (acc', r') := slot acc rt u
          { acc' with memo := acc'.memo ++ [(rt.1, r')] }
    else { acc with rs := acc.rs ++ [rt.1] }
  let acc := (b.rs.zip ts).foldl step ⟨s.heap, [], [], []⟩
  { heap := acc.heap, bundles := s.bundles.set i { b with rs := acc.rs }, store := acc.ins.foldl hadd s.store }

def hstep (sem : Sem) (P : Params) (now : Int) (s : HSys) : Op → HSys × Out
  | .verify i .direct =>
    let (h, b) := HBundle.verifyBy s.heap (s.get i) P.V
    let s' := { s.set i b with heap := h }
    (s', .sets (b.view h).verifiedSets)
  | .verify i .cached =>
    let s' := hverifyCached sem P.order P.V now P.ttl s i
    (s', .sets ((s'.get i).view s'.heap).verifiedSets)
  | .validate i rs => (s, .flag (!((s.get i).view s.heap).validate rs))
  | .attenuate i items =>
    let (h, e) := HBundle.attenuate s.heap (s.get i) items
    ({ s with heap := h }, .flag e)
  | .discharge i loc ka cb rnds =>
    let (h, b, e) := HBundle.dischargeWith P.scope s.heap (s.get i) loc ka cb rnds
    ({ s.set i b with heap := h }, .flag e)
  | .filter i f => (s.set i (HBundle.filter s.heap (s.get i) f), .none)
  | .header i => (s, .text ((s.get i).view s.heap).header)
  | .tick => (s, .none)
  | .evict k => ({ s with store := s.store.filter fun x => !decide (x.key = k) }, .none)

def HSys.views (s : HSys) : List Bundle := s.bundles.map (HBundle.view s.heap)

def hrun (sem : Sem) (P : Params) : List (Int × Op) → HSys → List (Out × List Bundle)
  | [], _ => []
  | (now, op) :: rest, s =>
    let (s', o) := hstep sem P now s op
    (o, s'.views) :: hrun sem P rest s'

/-- the initial state: every header parsed into its own bundle -/
def hinit (pl : Bytes) (hdrs : List Str) : HSys :=
  hdrs.foldl (fun s hdr =>
    let (h, b, _) := HBundle.parseWith s.heap pl hdr .default
    { s with heap := h, bundles := s.bundles ++ [b] }) ⟨Heap.empty, [], []⟩

def init (pl : Bytes) (hdrs : List Str) : Sys :=
  ⟨hdrs.map fun hdr => (Bundle.parse pl hdr).1, []⟩

end Cache
end Bundle
end Macaroon
