/-
Line-protocol operations of the discharge-client model (C20; driver only).

  (url.host x<url>)                      → host:x<hex>,abs:<0|1>,user:<0|1> | err | unmodelled
  (url.key x<loc>)                       → key:x<hex> | unmodelled
  (client.attach (opts …) x<url>)        → cred:x<hex> | none | err | unmodelled   then  via:… client:…
  (client.flow (opts …) (hdr <0|1> x<tok>…) (tickets (t x<loc> <n> (<resp>…))…))
       → f<n>:<dis|failed>[<I|P><hop> x<url> <none|basic|cred:x<hex>>;…] … hdr:<0|1>:<kept,…>|<sorted discharges,…> err:<0|1> via:… client:…

  opts:  (http <id> <transport id|nil>) (auth x<loc> x<cred>) (ign x<loc>…) (cb <0|1>) (other)
  resp:  (fail) (redir x<loc>) (acc) (json x<error> x<discharge> x<poll_url>)
         (jsonui x<error> x<discharge> x<poll_url> x<ui poll_url> x<ui user_url>)

The discharge member of a scripted answer is written at alias level and read the way
`Bundle.AddTokens` (`parseToks`) reads the real string: blanks trimmed, one leading `FlyV1 ` /
`Bearer ` scheme removed, split at `,`, each part trimmed; a part starting with `!` stands for a
token with a macaroon label and an undecodable body, which makes `AddTokens` refuse the whole
string (`addTokens`).  A flow is printed `dis` when its third party's string was accepted and
appended (what the Go side can observe in the returned header).

Every URL string of a line is screened first: not valid UTF-8, or a `%` in the authority
zone (`pctInAuthorityZone`) → the whole line is `unmodelled`; the Go harness screens the same way.
-/
import Driver.Sexp
import Macaroon.TP.Client

namespace Driver.ClientIO
open Macaroon Macaroon.TPClient

/-- byte string → characters; `none` when it is not valid UTF-8 -/
def str? (s : Sx) : Option (Option Str) := do
  let b ← s.bytes?
  some ((String.fromUTF8? ⟨b.toArray⟩).map String.toList)

def hxs (s : Str) : String := hx (String.ofList s).toUTF8.toList

/-- a URL-carrying string that the model covers -/
def okUrl (s : Option Str) : Bool :=
  match s with
  | none => false
  | some s => !pctInAuthorityZone s

/-- options; the Boolean says whether every location string passed the screen -/
def opt? : Sx → Option (Option Opt × Bool)
  | .list [.atom "http", i, .atom "nil"] => do some (some (.withHTTP ⟨← i.nat?, none⟩), true)
  | .list [.atom "http", i, t] => do some (some (.withHTTP ⟨← i.nat?, some (← t.nat?)⟩), true)
  | .list [.atom "auth", l, c] => do
    let l ← str? l
    let c ← str? c
    match l, c with
    | some l, some c => some (withAuthentication l c, okUrl (some l))
    | _, _ => some (none, false)
  | .list (.atom "ign" :: ls) => do
    let ls ← ls.mapM str?
    if ls.all Option.isSome then some (some (.withIgnored (ls.filterMap id)), true) else some (none, false)
  | .list [.atom "cb", b] => do some (some (.withCallback ((← b.nat?) == 1)), true)
  | .list [.atom "other"] => some (some .other, true)
  | _ => none

def opts? : Sx → Option (Option (List Opt))
  | .list (.atom "opts" :: os) => do
    let os ← os.mapM opt?
    if os.all (fun o => o.1.isSome && o.2) then some (some (os.filterMap (·.1))) else some none
  | _ => none

def resp? : Sx → Option (Option Resp)
  | .list [.atom "fail"] => some (some .fail)
  | .list [.atom "acc"] => some (some .accepted)
  | .list [.atom "redir", l] => do
    let l ← str? l
    if okUrl l then some (l.map .redirect) else some none
  | .list [.atom "json", e, d, p] => do
    let e ← str? e; let d ← str? d; let p ← str? p
    match e, d, p with
    | some e, some d, some p => if okUrl (some p) then some (some (.json ⟨e, d, p, none⟩)) else some none
    | _, _, _ => some none
  | .list [.atom "jsonui", e, d, p, up, uu] => do
    let e ← str? e; let d ← str? d; let p ← str? p; let up ← str? up; let uu ← str? uu
    match e, d, p, up, uu with
    | some e, some d, some p, some up, some uu =>
      if okUrl (some p) && okUrl (some up) then some (some (.json ⟨e, d, p, some (up, uu)⟩)) else some none
    | _, _, _, _, _ => some none
  | _ => none

structure TicketIn where
  loc : Str
  n : Nat
  script : List Resp

def ticket? : Sx → Option (Option TicketIn)
  | .list [.atom "t", l, n, .list rs] => do
    let l ← str? l
    let n ← n.nat?
    let rs ← rs.mapM resp?
    match l with
    | some l => if okUrl (some l) && rs.all Option.isSome then some (some ⟨l, n, rs.filterMap id⟩) else some none
    | none => some none
  | _ => none

def rtStr : RT → String
  | .nil => "default"
  | .user t => s!"t{t}"
  | .cleanhttp => "cleanhttp"

def fieldsStr : Option Fields → String
  | some (.user i) => s!"h{i}"
  | some .cleanhttp => "cleanhttp"
  | none => "unset"

def authStr (s : Sent) : String :=
  if s.basic then "basic"
  else match s.auth with
    | none => "none"
    | some c => "cred:" ++ hxs c

def sentStr (s : Sent) : String :=
  (match s.kind with | .init => "I" | .poll => "P") ++ toString s.hop ++ " " ++ hxs s.url.raw ++ " " ++ authStr s

/-- group tickets by location in order of first appearance (the shape of the Go map) -/
def groupTickets (ts : List TicketIn) : List (Str × List Nat) :=
  ts.foldl (fun acc t =>
    if acc.any (·.1 == t.loc) then acc.map fun e => if e.1 == t.loc then (e.1, e.2 ++ [t.n]) else e
    else acc ++ [(t.loc, [t.n])]) []

def insertSorted (x : String) : List String → List String
  | [] => [x]
  | y :: ys => if x < y then x :: y :: ys else y :: insertSorted x ys

def sortStrs (xs : List String) : List String := xs.foldl (fun acc x => insertSorted x acc) []

def splitOn (d : Char) (s : Str) : List Str :=
  let r := s.foldr (fun c (st : Str × List Str) => if c = d then ([], st.1 :: st.2) else (c :: st.1, st.2)) ([], [])
  r.1 :: r.2

/-- canonical form of a returned header: scheme flag, the first `nKept` tokens in order, the
rest (collected discharges, goroutine order in Go) sorted -/
def headerCanon (nKept : Nat) (h : Str) : String :=
  let pfx := flyV1Prefix
  let (flag, body) := if pfx.isPrefixOf h then ("1", h.drop pfx.length) else ("0", h)
  let toks := if body.isEmpty then [] else (splitOn ',' body).map String.ofList
  s!"hdr:{flag}:" ++ ",".intercalate (toks.take nKept) ++ "|" ++ ",".intercalate (sortStrs (toks.drop nKept))

def trimBlanks (s : Str) : Str :=
  ((s.dropWhile (· == ' ')).reverse.dropWhile (· == ' ')).reverse

/-- `strings.EqualFold` on ASCII -/
def eqFold (a b : Str) : Bool := a.map Char.toLower == b.map Char.toLower

/-- `macaroon.StripAuthorizationScheme` (recursive on the rest) on an alias-level string -/
def stripScheme (fuel : Nat) (s : Str) : Str :=
  let s := trimBlanks s
  match fuel with
  | 0 => s
  | fuel + 1 =>
    match cut ' ' s with
    | (pfx, some rest) =>
      if eqFold pfx "bearer".toList || eqFold pfx "flyv1".toList then stripScheme fuel rest else s
    | (_, none) => s

/-- `Bundle.AddTokens` on the alias-level string: the tokens it appends, `none` when it refuses -/
def addTokens (d : Str) : Option (List Str) :=
  let parts := (splitOn ',' (stripScheme 4 d)).map trimBlanks
  if parts.any (fun p => p.head? == some '!') then none else some parts

def cfgTail (cfg : Cfg) (anyRequest : Bool) : String :=
  if anyRequest then s!" via:{rtStr (innerUsed cfg)} client:{fieldsStr cfg.fields}" else " via:- client:-"

def flowStr (f : FlowResult) : String :=
  let o := match f.outcome with
    | .discharge d => if (addTokens d).isSome then "dis" else "failed"
    | .failed => "failed"
    | .unmodelled => "unmodelled"
  s!"f{f.ticket}:{o}[" ++ ";".intercalate (f.sent.map sentStr) ++ "]"

def insertFlow (x : FlowResult) : List FlowResult → List FlowResult
  | [] => [x]
  | y :: ys => if x.ticket < y.ticket then x :: y :: ys else y :: insertFlow x ys

def evalOpClient : Sx → Option String
  | .list [.atom "url.host", u] => do
    match ← str? u with
    | none => some "unmodelled"
    | some s =>
      if pctInAuthorityZone s then some "unmodelled"
      else match Url.parse s with
        | .ok p => some s!"host:{hxs p.host},abs:{if p.abs then 1 else 0},user:{if p.hasUser then 1 else 0}"
        | .err => some "err"
        | .unmodelled => some "unmodelled"
  | .list [.atom "url.key", l] => do
    match ← str? l with
    | none => some "unmodelled"
    | some s =>
      if pctInAuthorityZone s then some "unmodelled"
      else match hostOf s with
        | some k => some ("key:" ++ hxs k)
        | none => some "unmodelled"
  | .list [.atom "client.attach", os, u] => do
    let os ← opts? os
    let u ← str? u
    match os, u with
    | some os, some s =>
      if pctInAuthorityZone s then some "unmodelled"
      else
        let cfg := applyOptions os
        match Url.parse s with
        | .ok p =>
          some ((match attach cfg p with | some c => "cred:" ++ hxs c | none => if p.hasUser then "basic" else "none") ++ cfgTail cfg true)
        | .err => some "err"
        | .unmodelled => some "unmodelled"
    | _, _ => some "unmodelled"
  | .list [.atom "client.flow", os, .list (.atom "hdr" :: strippedSx :: keptSx), .list (.atom "tickets" :: ts)] => do
    let os ← opts? os
    let stripped := (← strippedSx.nat?) == 1
    let kept ← keptSx.mapM str?
    let ts ← ts.mapM ticket?
    match os with
    | none => some "unmodelled"
    | some os =>
      if !(kept.all Option.isSome && ts.all Option.isSome) then some "unmodelled"
      else
        let kept := kept.filterMap id
        let ts := ts.filterMap id
        let cfg := applyOptions os
        let script := fun (loc : Str) (n : Nat) =>
          match ts.find? (fun t => t.loc == loc && t.n == n) with
          | some t => t.script
          | none => []
        let res := fetch roundTripMutates cfg stripped kept (groupTickets ts) addTokens script
        if res.flows.any (fun f => f.outcome == .unmodelled) then some "unmodelled"
        else
          let flows := res.flows.foldl (fun acc f => insertFlow f acc) []
          let anyReq := res.flows.any fun f => !f.sent.isEmpty
          some (" ".intercalate (flows.map flowStr ++ [headerCanon kept.length res.header,
            s!"err:{if res.failed then 1 else 0}"]) ++ cfgTail cfg anyReq)
  | _ => none

end Driver.ClientIO
