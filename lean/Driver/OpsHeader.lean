/-
Line-protocol operations of the header model (C19).  Driver only; no theorem depends on this file.

Header strings travel as `x<hex of the UTF-8 bytes>`; the model works on code points
(`Macaroon/Format/Header.lean`), so a header that is not valid UTF-8 is answered `bad-utf8`
(the harness never sends one).

  (hdr.parse xH)                       → ok xT xT… | err:unrecognized | err:other
  (hdr.format xT…)                     → xH                      ToAuthorizationHeader
  (hdr.strip xH)                       → xREST true|false        StripAuthorizationScheme
  (hdr.toks xH)                        → non:xS | badb64:xS | mac:xS:xRAW … hdr:xH str:xS
  (hdr.split xLOC (xT xLOC|none)…)     → perm:xT,xT… dis:xT,…    FindPermissionAndDischargeTokens
  (hdr.ppd xH xLOC (xT xLOC|none)…)    → ok xPERM xDIS… | err:…  ParsePermissionAndDischargeTokens
  (hdr.ppd.flyio xH (xT xLOC|none)…)   → the same for flyio.ParsePermissionAndDischargeTokens

In `split`/`ppd` the pairs are the decode oracle: the location of `macaroon.Decode(T)` or `none`.
-/
import Driver.Sexp
import Macaroon.Format.Header

namespace Driver
open Macaroon Macaroon.Header

def text? (s : Sx) : Option (List Char) := do
  let bs ← s.bytes?
  let str ← String.fromUTF8? (Bytes.toByteArray bs)
  some str.toList

def hxText (cs : List Char) : String := hx (Bytes.ofString (String.ofList cs))

def hdrErrStr (e : ParseErr) : String :=
  if e.isUnrecognized then "err:unrecognized" else "err:other"

def oraclePair? : Sx → Option (Bytes × Option Bytes)
  | .list [t, .atom "none"] => do
    let t ← t.bytes?
    some (t, none)
  | .list [t, l] => do
    let t ← t.bytes?
    let l ← l.bytes?
    some (t, some l)
  | _ => none

def oracleOf (tbl : List (Bytes × Option Bytes)) (t : Bytes) : Option Bytes :=
  match tbl.lookup t with
  | some r => r
  | none => none

def tokOut : Tok → String
  | .nonMacaroon s => "non:" ++ hxText s
  | .malformedB64 s => "badb64:" ++ hxText s
  | .macaroonBytes s raw => "mac:" ++ hxText s ++ ":" ++ hx raw

def ppdOut : Except ParseErr (Bytes × List Bytes) → String
  | .error e => hdrErrStr e
  | .ok (p, ds) => " ".intercalate ("ok" :: hx p :: ds.map hx)

def evalOpHeader : Sx → Option String
  | .list [.atom "hdr.parse", h] =>
    match text? h with
    | none => some "bad-utf8"
    | some h =>
      match parse h with
      | .error e => some (hdrErrStr e)
      | .ok toks => some (" ".intercalate ("ok" :: toks.map hx))
  | .list (.atom "hdr.format" :: ts) => do
    let ts ← ts.mapM Sx.bytes?
    some (hxText (toAuthorizationHeader ts))
  | .list [.atom "hdr.strip", h] =>
    match text? h with
    | none => some "bad-utf8"
    | some h =>
      let (rest, found) := stripScheme h
      some (hxText rest ++ " " ++ toString found)
  | .list [.atom "hdr.toks", h] =>
    match text? h with
    | none => some "bad-utf8"
    | some h =>
      let ts := parseToks h
      some (" ".intercalate (ts.map tokOut ++ ["hdr:" ++ hxText (header ts), "str:" ++ hxText (tokString ts)]))
  | .list (.atom "hdr.split" :: loc :: pairs) => do
    let loc ← loc.bytes?
    let tbl ← pairs.mapM oraclePair?
    let (ps, ds) := splitByLocation (oracleOf tbl) loc (tbl.map (·.1))
    some ("perm:" ++ ",".intercalate (ps.map hx) ++ " dis:" ++ ",".intercalate (ds.map hx))
  | .list (.atom "hdr.ppd" :: h :: loc :: pairs) => do
    let loc ← loc.bytes?
    let tbl ← pairs.mapM oraclePair?
    match text? h with
    | none => some "bad-utf8"
    | some h => some (ppdOut (parsePermissionAndDischarge (oracleOf tbl) h loc))
  | .list (.atom "hdr.ppd.flyio" :: h :: pairs) => do
    let tbl ← pairs.mapM oraclePair?
    match text? h with
    | none => some "bad-utf8"
    | some h => some (ppdOut (flyioParsePermissionAndDischarge (oracleOf tbl) h))
  | _ => none

end Driver
