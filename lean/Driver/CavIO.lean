/-
Reading and printing caveats, requests and errors in the line protocol
(driver only; `partial` is fine here, nothing is proved about these).
-/
import Driver.Sexp
import Macaroon.Caveat.Prohibits

namespace Driver
open Macaroon

abbrev CavB := Cav Bytes

def u64? (s : Sx) : Option UInt64 := do
  let n ← s.nat?
  if n < 2^64 then some (UInt64.ofNat n) else none
def u32? (s : Sx) : Option UInt32 := do
  let n ← s.nat?
  if n < 2^32 then some (UInt32.ofNat n) else none
def u16? (s : Sx) : Option UInt16 := do
  let n ← s.nat?
  if n < 2^16 then some (UInt16.ofNat n) else none
def i64? (s : Sx) : Option Int64 := do
  let n ← s.int?
  if -(2^63 : Int) ≤ n ∧ n < 2^63 then some (Int64.ofInt n) else none

def strEntry? : Sx → Option (Bytes × Action)
  | .list [k, m] => do some (← k.bytes?, ← u16? m)
  | _ => none
def u64Entry? : Sx → Option (UInt64 × Action)
  | .list [k, m] => do some (← u64? k, ← u16? m)
  | _ => none

def cmd? : Sx → Option Command
  | .list [.atom "cmd", .atom "nil", e] => do some { args := none, exact := (← e.nat?) == 1 }
  | .list [.atom "cmd", .list args, e] => do some { args := some (← args.mapM Sx.bytes?), exact := (← e.nat?) == 1 }
  | _ => none

mutual
partial def cav? : Sx → Option CavB
  | .list (.atom h :: args) =>
    match h, args with
    | "org", [i, m] => do some (.organization (← u64? i) (← u16? m))
    | "apps", es => do some (.apps (← es.mapM u64Entry?))
    | "volumes", es => do some (.volumes (← es.mapM strEntry?))
    | "machines", es => do some (.machines (← es.mapM strEntry?))
    | "featureSet", es => do some (.featureSet (← es.mapM strEntry?))
    | "machineFeatureSet", es => do some (.machineFeatureSet (← es.mapM strEntry?))
    | "appFeatureSet", es => do some (.appFeatureSet (← es.mapM strEntry?))
    | "clusters", es => do some (.clusters (← es.mapM strEntry?))
    | "storageObjects", es => do some (.storageObjects (← es.mapM strEntry?))
    | "vw", [a, b] => do some (.validityWindow (← i64? a) (← i64? b))
    | "mutations", [.atom "nil"] => some (.mutations none)
    | "mutations", ms => do some (.mutations (some (← ms.mapM Sx.bytes?)))
    | "confineUser", [i] => do some (.confineUser (← u64? i))
    | "confineOrg", [i] => do some (.confineOrganization (← u64? i))
    | "isUser", [i] => do some (.isUser (← u64? i))
    | "tp", [l, v, t] => do some (.tp (← l.bytes?) (← v.bytes?) (← t.bytes?))
    | "bind", [b] => do some (.bind (← b.bytes?))
    | "ifp", [.atom "nil", e] => do some (.ifPresent true .nil (← u16? e))
    | "ifp", [.list cs, e] => do some (.ifPresent false (CavList.ofList (← cavs? cs)) (← u16? e))
    | "fromMachine", [i] => do some (.fromMachine (← i.bytes?))
    | "googleHD", [i] => do some (.confineGoogleHD (← i.bytes?))
    | "githubOrg", [i] => do some (.confineGitHubOrg (← u64? i))
    | "maxValidity", [i] => do some (.maxValidity (← u64? i))
    | "isMember", [] => some .isMember
    | "flyioUser", [i] => do some (.flyioUserID (← u64? i))
    | "githubUser", [i] => do some (.gitHubUserID (← u64? i))
    | "googleUser", [i] => do some (.googleUserID (← i.nat?))
    | "action", [m] => do some (.action (← u16? m))
    | "commands", [.atom "nil"] => some (.commands none)
    | "commands", cs => do some (.commands (some (← cs.mapM cmd?)))
    | "allowedRoles", [m] => do some (.allowedRoles (← u32? m))
    | "flySrc", [o, a, i] => do some (.flySrc (← o.bytes?) (← a.bytes?) (← i.bytes?))
    | "unreg", [t, r] => do some (.unregistered (← u64? t) (← r.bytes?))
    | _, _ => none
  | _ => none
partial def cavs? (xs : List Sx) : Option (List CavB) := xs.mapM cav?
end

/-! printing (same vocabulary as the Go side's sxCav) -/

def strSetStr (name : String) (rs : ResSet Bytes) : String :=
  "(" ++ name ++ String.join (rs.map fun e => s!" ({hx e.1} {e.2.toNat})") ++ ")"

def cmdStr (c : Command) : String :=
  let e := if c.exact then "1" else "0"
  match c.args with
  | none => s!"(cmd nil {e})"
  | some as => "(cmd (" ++ " ".intercalate (as.map hx) ++ s!") {e})"

mutual
partial def cavStr : CavB → String
  | .organization i m => s!"(org {i.toNat} {m.toNat})"
  | .apps rs => "(apps" ++ String.join (rs.map fun e => s!" ({e.1.toNat} {e.2.toNat})") ++ ")"
  | .volumes rs => strSetStr "volumes" rs
  | .machines rs => strSetStr "machines" rs
  | .featureSet rs => strSetStr "featureSet" rs
  | .machineFeatureSet rs => strSetStr "machineFeatureSet" rs
  | .appFeatureSet rs => strSetStr "appFeatureSet" rs
  | .clusters rs => strSetStr "clusters" rs
  | .storageObjects rs => strSetStr "storageObjects" rs
  | .validityWindow a b => s!"(vw {a.toInt} {b.toInt})"
  | .mutations none => "(mutations nil)"
  | .mutations (some ms) => "(mutations" ++ String.join (ms.map fun m => " " ++ hx m) ++ ")"
  | .confineUser i => s!"(confineUser {i.toNat})"
  | .confineOrganization i => s!"(confineOrg {i.toNat})"
  | .isUser i => s!"(isUser {i.toNat})"
  | .tp l v t => s!"(tp {hx l} {hx v} {hx t})"
  | .bind b => s!"(bind {hx b})"
  | .ifPresent true _ e => s!"(ifp nil {e.toNat})"
  | .ifPresent false cs e => s!"(ifp {cavsStr cs.toList} {e.toNat})"
  | .fromMachine i => s!"(fromMachine {hx i})"
  | .confineGoogleHD h => s!"(googleHD {hx h})"
  | .confineGitHubOrg i => s!"(githubOrg {i.toNat})"
  | .maxValidity i => s!"(maxValidity {i.toNat})"
  | .isMember => "(isMember)"
  | .flyioUserID i => s!"(flyioUser {i.toNat})"
  | .gitHubUserID i => s!"(githubUser {i.toNat})"
  | .googleUserID n => s!"(googleUser {n})"
  | .action m => s!"(action {m.toNat})"
  | .commands none => "(commands nil)"
  | .commands (some cs) => "(commands" ++ String.join (cs.map fun c => " " ++ cmdStr c) ++ ")"
  | .allowedRoles m => s!"(allowedRoles {m.toNat})"
  | .flySrc o a i => s!"(flySrc {hx o} {hx a} {hx i})"
  | .unregistered t r => s!"(unreg {t.toNat} {hx r})"
partial def cavsStr (cs : List CavB) : String := "(" ++ " ".intercalate (cs.map cavStr) ++ ")"
end

/-! requests -/

def errOfName? : String → Option Err
  | "other" => some .other | "invalidAccess" => some .invalidAccess
  | "resUnspecified" => some .resUnspecified | "resMutEx" => some .resMutEx
  | "unauthorized" => some .unauthorized | "badCaveat" => some .badCaveat
  | "forResource" => some .forResource | "forAction" => some .forAction | "forRole" => some .forRole
  | "confine" => some .confine
  | _ => none

def errName : Err → String
  | .other => "other" | .invalidAccess => "invalidAccess" | .resUnspecified => "resUnspecified"
  | .resMutEx => "resMutEx" | .unauthorized => "unauthorized" | .badCaveat => "badCaveat"
  | .forResource => "forResource" | .forAction => "forAction" | .forRole => "forRole"
  | .confine => "confine"

def errsStr (es : Errs) : String :=
  if es.isEmpty then "ok" else "errs:" ++ ",".intercalate (es.map errName)

/-- `(name)` → some none, `(name v)` → some (some v) -/
def optField? {α} (rd : Sx → Option α) : List Sx → Option (Option α)
  | [] => some none
  | [v] => (rd v).map some
  | _ => none

def cmdArgs? : List Sx → Option (Option (List Bytes))
  | [] => some none
  | [.list (.atom "args" :: as)] => (as.mapM Sx.bytes?).map some
  | _ => none

/-- fields of a `dyn` request: only implemented getters appear -/
def dynField (a : Access) : Sx → Option Access
  | .list (.atom n :: vs) =>
    match n with
    | "action" => match vs with
      | [v] => do some { a with action := some (← u16? v) }
      | _ => none
    | "org" => do some { a with org := some (← optField? u64? vs) }
    | "app" => do some { a with app := some (← optField? u64? vs) }
    | "appFeature" => do some { a with appFeature := some (← optField? Sx.bytes? vs) }
    | "feature" => do some { a with feature := some (← optField? Sx.bytes? vs) }
    | "volume" => do some { a with volume := some (← optField? Sx.bytes? vs) }
    | "machine" => do some { a with machine := some (← optField? Sx.bytes? vs) }
    | "machineFeature" => do some { a with machineFeature := some (← optField? Sx.bytes? vs) }
    | "cluster" => do some { a with cluster := some (← optField? Sx.bytes? vs) }
    | "storageObject" => do some { a with storageObject := some (← optField? Sx.bytes? vs) }
    | "mutation" => do some { a with mutation := some (← optField? Sx.bytes? vs) }
    | "sourceMachine" => do some { a with sourceMachine := some (← optField? Sx.bytes? vs) }
    | "sourceApp" => do some { a with sourceApp := some (← optField? Sx.bytes? vs) }
    | "sourceOrg" => do some { a with sourceOrg := some (← optField? Sx.bytes? vs) }
    | "command" => do some { a with command := some (← cmdArgs? vs) }
    | "roles" => do some { a with roles := some (← vs.mapM u32?) }
    | _ => none
  | _ => none

/-- fields of a `flyio` request: absent = nil pointer -/
def flyioField (f : Flyio.Req) : Sx → Option Flyio.Req
  | .list [.atom n, v] =>
    match n with
    | "org" => do some { f with org := some (← u64? v) }
    | "app" => do some { f with app := some (← u64? v) }
    | "appFeature" => do some { f with appFeature := some (← v.bytes?) }
    | "feature" => do some { f with feature := some (← v.bytes?) }
    | "volume" => do some { f with volume := some (← v.bytes?) }
    | "machine" => do some { f with machine := some (← v.bytes?) }
    | "machineFeature" => do some { f with machineFeature := some (← v.bytes?) }
    | "mutation" => do some { f with mutation := some (← v.bytes?) }
    | "sourceMachine" => do some { f with sourceMachine := some (← v.bytes?) }
    | "sourceApp" => do some { f with sourceApp := some (← v.bytes?) }
    | "sourceOrg" => do some { f with sourceOrg := some (← v.bytes?) }
    | "cluster" => do some { f with cluster := some (← v.bytes?) }
    | "storageObject" => do some { f with storageObject := some (← v.bytes?) }
    | "command" => match v with
      | .list (.atom "args" :: as) => do some { f with command := some (← as.mapM Sx.bytes?) }
      | _ => none
    | _ => none
  | _ => none

def flyioReq? : Sx → Option (Flyio.Req × Int × Nat)
  | .list (.atom "flyio" :: s :: ns :: act :: fields) => do
    let f ← fields.foldlM flyioField { Flyio.Req.zero with action := (← u16? act) }
    some (f, ← s.int?, ← ns.nat?)
  | _ => none

def flyAuth? : Sx → Option (UInt64 × List UInt64)
  | .list (u :: os) => do some (← u64? u, ← os.mapM u64?)
  | _ => none
def ghAuth? : Sx → Option (List UInt64)
  | .list (.atom "orgs" :: os) => os.mapM u64?
  | _ => none

def access? : Sx → Option Access
  | .list (.atom "dyn" :: s :: ns :: wf :: fields) => do
    let wfE ← match wf with
      | .atom "ok" => some []
      | .atom n => (errOfName? n).map ([·])
      | _ => none
    fields.foldlM dynField { Access.bare (← s.int?) (← ns.nat?) with wf := wfE }
  | sx@(.list (.atom "flyio" :: _)) => do
    let (f, s, ns) ← flyioReq? sx
    some (f.toAccess s ns)
  | .list [.atom "dr", s, ns, .list (.atom "flyio" :: fl), .list (.atom "google" :: gs),
           .list (.atom "github" :: gh), .list [.atom "expiry", es, ens]] => do
    let d : DischargeReq := { flyio := ← fl.mapM flyAuth?, google := ← gs.mapM Sx.bytes?,
                              github := ← gh.mapM ghAuth?, expirySec := ← es.int?, expiryNsec := ← ens.nat? }
    some { Access.bare (← s.int?) (← ns.nat?) with discharge := some d }
  | _ => none

end Driver
