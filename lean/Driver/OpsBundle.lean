/-
Driver operations of the bundle and verification-cache models (C13, C14).  Driver only; no theorem
depends on this file.  The driver is a stateless line evaluator, so an op carries a whole history.

  (bundle.run (scope every|that) (keys (xKID xKEY)…) (trust …) xPERMLOC OP…)
      OP = (parse xH F) | (add i xH) | (select i F) | (filter i F) | (attenuate i ITEM…)
         | (discharge i xLOC xKA CB xRND…) | (verify i) | (validate i REQ…) | (clone i)
         | (header i) | (len i) | (error i) | (undischarged i) | (undischargedFor i xLOC) | (count i F)
         | (any i F) | (uuids i) | (sets i) | (string i) | (isEmpty i) | (verifyWith i (keys …) (trust …))
      one output token per op: `<result>~<state of every live bundle>`, tokens joined by " | "

  (cache.run (sem share|copy) (order kid|text) (scope every|that) (keys …) (trust …) xPERMLOC (ttl N) (hdrs xH…) (NOW OP)…)
      OP = (verify i cached|direct) | (validate i REQ…) | (attenuate i ITEM…) | (discharge i …)
         | (filter i F) | (header i) | tick | (evict KEYHASH) | (rekey (keys …))   -- rekey: the issuer's key map changes
      output: the trace of the history as given, " # ", the trace of the same history with every
      verification done directly.

  (spec.bundle (keys …) (trust …) xPERMLOC xH REQ…)
      the declarative side of `bundle_decision` against the bundle's own answer: agree | disagree:<i>

  F    = default | all | none | perm | (loc xL) | ver | unv | failed | malformed | nonmac | wf
       | (and F F) | (or F F) | (not F) | (withDischarges F) | (missing xLOC) | (allows REQ…)
       | flyPerm | flyAuth | flyNewAuth | flySecrets | (forOrg ORG SEC NSEC) | (forOrgUnv ORG)
  ITEM = (c CAV) | (new3p xLOC xTICKET xRN xNONCE)
  CB   = (ok ITEM…) | err | (ifnone ITEM…)        -- ifnone: refuse a ticket that carries caveats
       | (bycavs ((CAV…) CB)… CB)               -- per-ticket decisions keyed by the ticket's caveats; last = default
-/
import Driver.CavIO
import Driver.OpsToken
import Driver.OpsHeader
import Macaroon.Bundle.Cache

namespace Driver.BundleIO
open Macaroon Macaroon.Bundle Driver

partial def filter? : Sx → Option Filter
  | .atom "default" => some .default
  | .atom "all" => some .keepAll
  | .atom "none" => some .keepNone
  | .atom "perm" => some .isPerm
  | .atom "ver" => some .isVerified
  | .atom "unv" => some .isUnverified
  | .atom "failed" => some .isFailed
  | .atom "malformed" => some .isMalformed
  | .atom "nonmac" => some .isNonMacaroon
  | .atom "wf" => some .isWellFormed
  | .atom "flyPerm" => some .flyioIsPermissionToken
  | .atom "flyAuth" => some .flyioIsAuthToken
  | .atom "flyNewAuth" => some .flyioIsNewAuthToken
  | .atom "flySecrets" => some .flyioIsSecretsToken
  | .list [.atom "forOrg", o, sec, nsec] => do some (.flyioIsForOrg (← u64? o) (← sec.int?) (← nsec.nat?))
  | .list [.atom "forOrgUnv", o] => do some (.isForOrgUnverified (← u64? o))
  | .list [.atom "loc", l] => do some (.location (← l.bytes?))
  | .list [.atom "and", a, b] => do some (.and (← filter? a) (← filter? b))
  | .list [.atom "or", a, b] => do some (.or (← filter? a) (← filter? b))
  | .list [.atom "not", a] => do some (.not (← filter? a))
  | .list [.atom "withDischarges", a] => do some (.withDischarges (← filter? a))
  | .list [.atom "missing", l] => do some (.isMissingDischarge (← l.bytes?))
  | .list (.atom "allows" :: rs) => do some (.allowsAccess (← rs.mapM access?))
  | _ => none

partial def cb? : Sx → Option Bundle.Discharger
  | .atom "err" => some fun _ => none
  | .list (.atom "ok" :: items) => do
    let items ← items.mapM item?
    some fun _ => some items
  | .list (.atom "ifnone" :: items) => do
    let items ← items.mapM item?
    some fun tc => if tc.isEmpty then some items else none
  | .list (.atom "bycavs" :: rest) => do
    -- a per-ticket decision list, keyed by the ticket's caveats; the last element is the default
    let dflt ← cb? (← rest.getLast?)
    let cases ← rest.dropLast.mapM fun
      | .list [.list pat, dec] => do some (cavsStr (← cavs? pat), ← cb? dec)
      | _ => none
    some fun tc =>
      match cases.find? fun c => c.1 == cavsStr tc with
      | some c => c.2 tc
      | none => dflt tc
  | _ => none

def keys? : Sx → Option (Bytes → Option Bytes)
  | .list (.atom "keys" :: es) => do
    let tbl ← es.mapM fun
      | .list [k, v] => do some (← k.bytes?, ← v.bytes?)
      | _ => none
    some fun kid => (tbl.find? fun e => e.1 == kid).map (·.2)
  | _ => none

def scope? : Sx → Option Bundle.DischargeScope
  | .list [.atom "scope", .atom "every"] => some .everyLocation
  | .list [.atom "scope", .atom "that"] => some .thatLocation
  | _ => none

def textBytes (cs : Str) : Bytes := Bytes.ofString (String.ofList cs)

def hash8 (cs : Str) : String := Bytes.toHex ((Concrete.sha (textBytes cs)).take 8)

/-- kinds, error flag and header digest of one bundle -/
def bundleState (b : Bundle) : String :=
  String.ofList (b.ts.map Tok.kind) ++ ":" ++ (if b.error? then "e" else "n") ++ ":" ++ hash8 b.header

def statesStr (bs : List Bundle) : String :=
  ",".intercalate ((List.range bs.length).zipWith (fun i b => s!"b{i}={bundleState b}") bs)

def setsStr (l : List CS) : String :=
  if l.isEmpty then "err" else "ok" ++ "+".intercalate (l.map cavsStr)

def flagStr (e : Bool) : String := if e then "err" else "ok"

def ticketsStr (l : List (Bytes × Bytes)) : String :=
  let locs := (Bundle.locsOf l []).mergeSort (fun a b => !Bytes.lt b a)
  ";".intercalate (locs.map fun loc =>
    hx loc ++ "=" ++ ",".intercalate ((l.filter fun lt => lt.1 == loc).map fun lt => hx lt.2))

/-! ### bundle.run -/

structure RunState where
  heap : Heap
  bs : List HBundle

def RunState.get (s : RunState) (i : Nat) : HBundle := s.bs.getD i ⟨[], []⟩
def RunState.views (s : RunState) : List Bundle := s.bs.map (HBundle.view s.heap)

def bundleOp (sc : Bundle.DischargeScope) (R : Bundle.Resolver) (pl : Bytes) (s : RunState) :
    Sx → Option (RunState × String)
  | .list [.atom "parse", h, f] => do
    let f ← filter? f
    match text? h with
    | none => some (s, "bad-utf8")
    | some hdr =>
      let (heap, b, e) := HBundle.parseWith s.heap pl hdr f
      some ({ heap, bs := s.bs ++ [b] }, s!"new{s.bs.length}:{if e then "e" else "n"}")
  | .list [.atom "add", i, h] => do
    let i ← i.nat?
    match text? h with
    | none => some (s, "bad-utf8")
    | some hdr =>
      let (heap, b, e) := HBundle.addTokens s.heap (s.get i) hdr
      some ({ heap, bs := s.bs.set i b }, flagStr e)
  | .list [.atom "select", i, f] => do
    let i ← i.nat?
    let f ← filter? f
    some ({ s with bs := s.bs ++ [HBundle.select s.heap (s.get i) f] }, s!"new{s.bs.length}")
  | .list [.atom "filter", i, f] => do
    let i ← i.nat?
    let f ← filter? f
    some ({ s with bs := s.bs.set i (HBundle.filter s.heap (s.get i) f) }, "-")
  | .list (.atom "attenuate" :: i :: items) => do
    let i ← i.nat?
    let items ← items.mapM item?
    let (heap, e) := HBundle.attenuate s.heap (s.get i) items
    some ({ s with heap }, flagStr e)
  | .list (.atom "discharge" :: i :: loc :: ka :: cb :: rnds) => do
    let i ← i.nat?
    let cb ← cb? cb
    let rnds ← rnds.mapM Sx.bytes?
    let (heap, b, e) := HBundle.dischargeWith sc s.heap (s.get i) (← loc.bytes?) (← ka.bytes?) cb rnds
    some ({ heap, bs := s.bs.set i b }, flagStr e)
  | .list [.atom "verify", i] => do
    let i ← i.nat?
    let (heap, b) := HBundle.verifyBy s.heap (s.get i) R.oracle
    some ({ heap, bs := s.bs.set i b }, setsStr (b.view heap).verifiedSets)
  | .list (.atom "validate" :: i :: rs) => do
    let i ← i.nat?
    let rs ← rs.mapM access?
    some (s, flagStr (!((s.get i).view s.heap).validate rs))
  | .list [.atom "clone", i] => do
    let i ← i.nat?
    let (heap, b) := HBundle.clone s.heap (s.get i)
    some ({ heap, bs := s.bs ++ [b] }, s!"new{s.bs.length}")
  | .list [.atom "header", i] => do
    let i ← i.nat?
    some (s, hxText ((s.get i).view s.heap).header)
  | .list [.atom "len", i] => do
    let i ← i.nat?
    some (s, toString ((s.get i).view s.heap).len)
  | .list [.atom "error", i] => do
    let i ← i.nat?
    some (s, if ((s.get i).view s.heap).error? then "err" else "nil")
  | .list [.atom "undischarged", i] => do
    let i ← i.nat?
    some (s, "u:" ++ ticketsStr ((s.get i).view s.heap).undischargedTickets)
  | .list [.atom "undischargedFor", i, loc] => do
    let i ← i.nat?
    some (s, "u:" ++ ",".intercalate ((((s.get i).view s.heap).undischargedTicketsFor (← loc.bytes?)).map hx))
  | .list [.atom "any", i, f] => do
    let i ← i.nat?
    let f ← filter? f
    let b := (s.get i).view s.heap
    some (s, toString (!(f.apply b.permLoc b.ts).isEmpty))
  | .list [.atom "string", i] => do
    let i ← i.nat?
    some (s, hxText (tokString ((s.get i).view s.heap).ts))
  | .list [.atom "isEmpty", i] => do
    let i ← i.nat?
    some (s, toString ((s.get i).view s.heap).ts.isEmpty)
  | .list [.atom "verifyWith", i, ks, tr] => do
    -- Verify with another resolver than the run's (a key retired or replaced, trust changed)
    let i ← i.nat?
    let R' : Bundle.Resolver := ⟨← keys? ks, ← trust? tr⟩
    let (heap, b) := HBundle.verifyBy s.heap (s.get i) R'.oracle
    some ({ heap, bs := s.bs.set i b }, setsStr (b.view heap).verifiedSets)
  | .list [.atom "sets", i] => do
    -- the verified caveat sets as they are now (no verification)
    let i ← i.nat?
    some (s, "sets:" ++ "+".intercalate ((((s.get i).view s.heap).verifiedSets).map cavsStr))
  | .list [.atom "uuids", i] => do
    let i ← i.nat?
    some (s, "n:" ++ ",".intercalate ((((s.get i).view s.heap).flyioNonces).map fun kr => hx kr.1 ++ ":" ++ hx kr.2))
  | .list [.atom "count", i, f] => do
    let i ← i.nat?
    let f ← filter? f
    let b := (s.get i).view s.heap
    some (s, toString (f.apply b.permLoc b.ts).length)
  | _ => none

/-! ### cache.run -/

open Bundle.Cache in
def cacheOp? : Sx → Option Cache.Op
  | .list [.atom "verify", i, .atom "cached"] => do some (.verify (← i.nat?) .cached)
  | .list [.atom "verify", i, .atom "direct"] => do some (.verify (← i.nat?) .direct)
  | .list (.atom "validate" :: i :: rs) => do some (.validate (← i.nat?) (← rs.mapM access?))
  | .list (.atom "attenuate" :: i :: items) => do some (.attenuate (← i.nat?) (← items.mapM item?))
  | .list (.atom "discharge" :: i :: loc :: ka :: cb :: rnds) => do
    some (.discharge (← i.nat?) (← loc.bytes?) (← ka.bytes?) (← cb? cb) (← rnds.mapM Sx.bytes?))
  | .list [.atom "filter", i, f] => do some (.filter (← i.nat?) (← filter? f))
  | .list [.atom "header", i] => do some (.header (← i.nat?))
  | .atom "tick" => some .tick
  | .list [.atom "evict", .atom h] => some (.evict h.toList)      -- a key DIGEST; resolved below
  | _ => none

/-- a step of a history: the time, the operation, and — for `(rekey (keys …))`, which stands for the
issuer changing its key map between two requests — the verifier in force from this step on -/
abbrev TimedStep := Int × Cache.Op × Option Bundle.Oracle

def timedOp? (trusted : Bytes → List Bytes) : Sx → Option TimedStep
  | .list [now, .list [.atom "rekey", ks]] => do
    some (← now.int?, .tick, some (Bundle.Resolver.oracle ⟨← keys? ks, trusted⟩))
  | .list [now, op] => do some (← now.int?, ← cacheOp? op, none)
  | _ => none

def outStr : Cache.Out → String
  | .none => "-"
  | .flag e => flagStr e
  | .text s => hxText s
  | .sets l => setsStr l

def traceStr (tr : List (Cache.Out × List Bundle)) : String :=
  " | ".intercalate (tr.map fun ob => outStr ob.1 ++ "~" ++ statesStr ob.2)

/-- number of inner-verifier calls a cached verification makes: the distinct permission objects
that miss -/
def missCount (ko : Cache.KeyOrder) (s : Cache.HSys) (now : Int) (i : Nat) : Nat :=
  let b := s.get i
  let ts := s.heap.view b.rs
  let misses := (b.rs.zip ts).filter fun rt =>
    isPermAt b.permLoc rt.2 && (Cache.hget s.store now (Cache.keyOf ko rt.2 (dischargesOf b.permLoc ts rt.2))).isNone
  (misses.map (·.1)).eraseDups.length

/-- object-level run; `evict` carries a key digest -/
def hrunIO (sem : Cache.Sem) (P0 : Cache.Params) : List TimedStep → Cache.HSys → List String
  | [], _ => []
  | (now, op, v) :: rest, s =>
    let P : Cache.Params := match v with | some V => { P0 with V := V } | none => P0
    let op' : Cache.Op := match op with
      | .evict d => .evict (((s.store.find? fun e => hash8 e.key == String.ofList d).map (·.key)).getD [])
      | o => o
    let extra := match op' with
      | .verify i .cached => s!"~calls={missCount P.order s now i}"
      | _ => ""
    let (s', o) := Cache.hstep sem P now s op'
    (outStr o ++ "~" ++ statesStr s'.views ++ extra) :: hrunIO sem P rest s'

/-- value-level run (the system the theorems of C14 are about); `evict` carries a key digest -/
def vrunIO (P0 : Cache.Params) : List TimedStep → Cache.Sys → List String
  | [], _ => []
  | (now, op, v) :: rest, s =>
    let P : Cache.Params := match v with | some V => { P0 with V := V } | none => P0
    let op' : Cache.Op := match op with
      | .evict d => .evict (((s.store.find? fun e => hash8 e.key == String.ofList d).map (·.key)).getD [])
      | o => o
    let (s', o) := Cache.step P now s op'
    (outStr o ++ "~" ++ statesStr s'.bundles) :: vrunIO P rest s'

def stripCalls (s : String) : String :=
  match s.splitOn "~calls=" with
  | a :: _ => a
  | [] => s

def order? : Sx → Option Cache.KeyOrder
  | .list [.atom "order", .atom "kid"] => some .byKid
  | .list [.atom "order", .atom "text"] => some .byText
  | _ => none

def sem? : Sx → Option Cache.Sem
  | .list [.atom "sem", .atom "share"] => some .share
  | .list [.atom "sem", .atom "copy"] => some .copy
  | _ => none

/-! ### the declarative side of `bundle_decision` -/

/-- per permission token of the printed bundle: accepted under the key for its key-id together with
ALL other well-formed tokens of the header as candidate discharges, and the caveats clear -/
def directDecisions (R : Bundle.Resolver) (pl : Bytes) (ts : List Tok) (rs : List Access) : List (Option (CS × Bool)) :=
  ts.map fun t =>
    if isPermAt pl t then
      match t.mac? with
      | none => none
      | some m =>
        let others := (ts.filter fun d => isDisAt pl d).filterMap Tok.mac?
        match R.verifyMac m others with
        | some cs => some (cs, (validate cs rs).isEmpty)
        | none => none
    else none

def evalOpBundle : Sx → Option String
  | .list (.atom "bundle.run" :: sc :: ks :: tr :: pl :: ops) => do
    let sc ← scope? sc
    let R : Bundle.Resolver := ⟨← keys? ks, ← trust? tr⟩
    let pl ← pl.bytes?
    let (_, outs) ← ops.foldlM (fun (st : RunState × List String) op => do
      let (s', o) ← bundleOp sc R pl st.1 op
      some (s', st.2 ++ [o ++ "~" ++ statesStr s'.views])) (⟨Heap.empty, []⟩, [])
    some (" | ".intercalate outs)
  | .list (.atom "cache.run" :: sem :: ord :: sc :: ks :: tr :: pl :: .list [.atom "ttl", ttl] :: .list (.atom "hdrs" :: hs) :: steps) => do
    let sem ← sem? sem
    let ord ← order? ord
    let sc ← scope? sc
    let R : Bundle.Resolver := ⟨← keys? ks, ← trust? tr⟩
    let pl ← pl.bytes?
    let ttl ← ttl.int?
    let hdrs ← hs.mapM text?
    let hist ← steps.mapM (timedOp? R.trusted)
    let P : Cache.Params := { V := R.oracle, ttl, scope := sc, order := ord }
    let direct := hist.map fun no => (no.1, no.2.1.direct, no.2.2)
    let h0 := Cache.hinit pl hdrs
    let cachedH := hrunIO sem P hist h0
    let directH := hrunIO sem P direct h0
    -- in copy mode the value-level system is what the theorems speak about: run it too
    let refine :=
      if sem == .copy then
        let v0 := Cache.init pl hdrs
        if vrunIO P hist v0 == cachedH.map stripCalls && vrunIO P direct v0 == directH then "" else " REFINE-MISMATCH"
      else ""
    some (" | ".intercalate cachedH ++ " # " ++ " | ".intercalate directH ++ refine)
  | .list (.atom "spec.bundle" :: ks :: tr :: pl :: h :: rs) => do
    let R : Bundle.Resolver := ⟨← keys? ks, ← trust? tr⟩
    let pl ← pl.bytes?
    let rs ← rs.mapM access?
    match text? h with
    | none => some "bad-utf8"
    | some hdr =>
      let b := (Bundle.parseWith pl hdr .keepAll).1
      let vb := b.verify R
      let direct := directDecisions R pl b.ts rs
      -- per token: the bundle's verdict (verified caveats, whether they clear) against the direct one
      let mine := vb.ts.map fun t =>
        match t.cs? with
        | some cs => some (cavsStr cs, (validate cs rs).isEmpty)
        | none => none
      let theirs := direct.map fun d => d.map fun x => (cavsStr x.1, x.2)
      let bad := (List.range mine.length).find? fun i => mine.getD i none != theirs.getD i none
      let whole := vb.validate rs == theirs.any fun d => match d with | some (_, true) => true | _ => false
      match bad with
      | some i => some s!"disagree:{i}"
      | none => some (if whole then "agree" else "disagree:validate")
  | _ => none

end Driver.BundleIO
