/-
Line-protocol driver of the model: one operation per input line, one canonical
observable per output line.  Imports model files only (core Lean), so it links
as a native executable.
-/
import Driver.CavIO
import Macaroon.Auth.Discharge
import Macaroon.Caveat.Spec
import Macaroon.Conc.RWMutex
import Macaroon.Generated.BundleLocks
import Driver.OpsWire
import Driver.OpsToken
import Driver.OpsScope
import Driver.OpsTP
import Driver.OpsClient
import Driver.OpsHeader
import Driver.OpsJson
import Driver.OpsBundle
import Driver.OpsHostile

namespace Driver
open Macaroon

def rolesStr (rs : List UInt32) : String := "roles:" ++ ",".intercalate (rs.map fun r => toString r.toNat)

/-- all control-flow paths of an entry point in the regenerated lock table -/
def pathsOf (n : String) : List Conc.Entry :=
  Generated.bundleLocks.filter fun e => e.name == n || e.name.startsWith (n ++ "#")

/-- what the model predicts for goroutines hammering entry points `a` and `b` concurrently:
`ok` when all their paths are flat (then `bundle_deadlock_free`/`bundle_race_free` apply);
otherwise a witness schedule of the model is searched: `may-hang` / `may-race` -/
def concVerdict (a b : String) : String :=
  let pa := pathsOf a
  let pb := pathsOf b
  if pa.isEmpty || pb.isEmpty then "unknown-entry"
  else if (pa ++ pb).all (fun e => Conc.Flat e.trace) then "ok"
  else
    let progs := fun (x y : Conc.Entry) => [x.trace, x.trace, y.trace, y.trace]
    let hang := pa.any fun x => pb.any fun y => (Conc.findDeadlock (progs x y) 14).isSome
    if hang then "may-hang" else "may-race"

def evalOp : Sx → Option String
  | .list [.atom "prohibits", c, a] => do
    let c ← cav? c
    let a ← access? a
    some (errsStr (prohibits c a))
  | .list [.atom "spec.prohibits", c, a] => do
    let c ← cav? c
    let a ← access? a
    match Spec.permits c a with
    | some true => some "ok"
    | some false => some "errs:spec"
    | none => some (errsStr (prohibits c a))
  | .list [.atom "conc", .atom a, .atom b] => some (concVerdict a b)
  | .list [.atom "locks.nonflat"] =>
    some ("nonflat:" ++ ",".intercalate ((Generated.bundleLocks.filter fun e => !Conc.Flat e.trace).map (·.name)))
  | .list [.atom "validate", .list cs, .list as] => do
    let cs ← cavs? cs
    let as ← as.mapM access?
    some (errsStr (validate cs as))
  | .list [.atom "wf", a] => do
    let (f, _, _) ← flyioReq? a
    some (errsStr (Flyio.validate f))
  | .list [.atom "roles", a] => do
    let (f, _, _) ← flyioReq? a
    some (rolesStr (Flyio.permittedRoles f.feature f.action))
  | .list [.atom "getmaxvalidity", .list cs] => do
    let cs ← cavs? cs
    let (d, ok) := getMaxValidity cs
    some s!"maxvalidity:{d},{ok}"
  | _ => none

def evalLine (line : String) : String :=
  match Sx.parse line with
  | none => "bad-parse"
  | some sx => ((evalOp sx) <|> (evalOpWire sx) <|> (evalOpToken sx) <|> (evalOpScope sx) <|> (TPIO.evalOpTP sx) <|> (ClientIO.evalOpClient sx) <|> (evalOpHeader sx) <|> (evalOpJson sx) <|> (BundleIO.evalOpBundle sx) <|> (evalOpHostile sx)).getD "bad-op"

partial def loop (h : IO.FS.Stream) (out : IO.FS.Stream) : IO Unit := do
  let line ← h.getLine
  if line.isEmpty then return ()
  let l := String.ofList (line.toList.reverse.dropWhile fun c => c == '\n' || c == '\r').reverse
  out.putStrLn (evalLine l)
  loop h out

end Driver

def main : IO Unit := do
  let stdin ← IO.getStdin
  let stdout ← IO.getStdout
  Driver.loop stdin stdout
  stdout.flush
