/-
Line-protocol operations of the scope helpers (C17).  Driver only.

  (scope.org (C…))                         → org:<id> | errs:…
  (scope.app (C…))                         → apps:nil | apps:<id>,<id>,…        (apps: = empty slice)
  (scope.cluster (C…))                     → clusters:nil | clusters:x<hex>,…
  (scope.appsAllowing (C…) <action> <sec> <nsec>) → allow:<org>:nil | allow:<org>:<id>,… | errs:…
  (scope.expiration (C…))                  → exp:<unix sec>,<nsec>              ((*Macaroon).Expiration)
  (scope.vexpiration (C…))                 → exp:<unix sec>,<nsec>              ((*VerifiedMacaroon).Expiration)
  (spec.scope.<helper> (C…) …)             → sound

The `spec.scope.*` lines carry the declarative oracle of C17: on the Go side the helper's answer
is compared with brute-force `CaveatSet.Validate` over the id universe and the observable is
`sound` or `unsound:<clause>:<id>`; the answer the property (and, for the model, the theorems
of Props/C17.lean) makes mandatory is `sound`.  `spec.scope.pure` is the same kind of line for
"the helpers are functions of the set": asked again they answer the same and the set is unchanged
(the model's helpers are pure functions, so `sound` holds of them by construction).
-/
import Driver.CavIO
import Macaroon.Flyio.Scopes

namespace Driver
open Macaroon

def scopeIdsStr (ids : List UInt64) : String := ",".intercalate (ids.map fun i => toString i.toNat)

def scopeExpStr (e : Int × Nat) : String := s!"exp:{e.1},{e.2}"

def evalOpScope : Sx → Option String
  | .list [.atom "scope.org", .list cs] => do
    let cs ← cavs? cs
    match Flyio.organizationScope cs with
    | .ok o => some s!"org:{o.toNat}"
    | .error e => some (errsStr e)
  | .list [.atom "scope.app", .list cs] => do
    let cs ← cavs? cs
    match Flyio.appScope cs with
    | none => some "apps:nil"
    | some ids => some ("apps:" ++ scopeIdsStr ids)
  | .list [.atom "scope.cluster", .list cs] => do
    let cs ← cavs? cs
    match Flyio.clusterScope cs with
    | none => some "clusters:nil"
    | some ids => some ("clusters:" ++ ",".intercalate (ids.map hx))
  | .list [.atom "scope.appsAllowing", .list cs, act, sec, nsec] => do
    let cs ← cavs? cs
    match Flyio.appsAllowing cs (← u16? act) (← sec.int?) (← nsec.nat?) with
    | .ok (o, none) => some s!"allow:{o.toNat}:nil"
    | .ok (o, some ids) => some (s!"allow:{o.toNat}:" ++ scopeIdsStr ids)
    | .error e => some (errsStr e)
  | .list [.atom "scope.expiration", .list cs] => do
    let cs ← cavs? cs
    some (scopeExpStr (Flyio.tokenExpiration cs))
  | .list [.atom "scope.vexpiration", .list cs] => do
    let cs ← cavs? cs
    some (scopeExpStr (Flyio.verifiedExpiration cs))
  | .list (.atom op :: .list cs :: rest) =>
    if op.startsWith "spec.scope." then do
      let _ ← cavs? cs
      -- remaining arguments (action, clock) must be numbers
      let _ ← rest.mapM Sx.int?
      some "sound"
    else none
  | _ => none

end Driver
