/-
S-expressions of the line protocol (driver only; not part of any theorem).
-/
import Macaroon.Basic.Bytes

namespace Driver
open Macaroon

inductive Sx
  | atom (s : String)
  | list (xs : List Sx)
  deriving Inhabited, Repr

namespace Sx

/-- split a line into tokens: parentheses and maximal runs of other non-space characters -/
def tokenize (s : String) : List String :=
  let flush := fun (acc : List String) (cur : List Char) =>
    if cur.isEmpty then acc else String.ofList cur.reverse :: acc
  let step := fun (st : List String × List Char) (c : Char) =>
    if c == '(' then ("(" :: flush st.1 st.2, [])
    else if c == ')' then (")" :: flush st.1 st.2, [])
    else if c == ' ' || c == '\t' then (flush st.1 st.2, [])
    else (st.1, c :: st.2)
  let (acc, cur) := s.toList.foldl step ([], [])
  (flush acc cur).reverse

/-- parse with an explicit stack of open lists (innermost first, elements reversed) -/
def parseToks : List String → List (List Sx) → Option Sx
  | [], [[x]] => some x
  | [], _ => none
  | "(" :: rest, stack => parseToks rest ([] :: stack)
  | ")" :: rest, top :: next :: stack => parseToks rest ((Sx.list top.reverse :: next) :: stack)
  | ")" :: _, _ => none
  | t :: rest, top :: stack => parseToks rest ((Sx.atom t :: top) :: stack)
  | _ :: _, [] => none

def parse (s : String) : Option Sx := parseToks (tokenize s) [[]]

def nat? : Sx → Option Nat
  | atom s => s.toNat?
  | _ => none

def int? : Sx → Option Int
  | atom s => s.toInt?
  | _ => none

/-- `x<hex>` byte strings -/
def bytes? : Sx → Option Bytes
  | atom s =>
    match s.toList with
    | 'x' :: rest => Bytes.ofHexChars rest
    | _ => none
  | _ => none

def sym? : Sx → Option String
  | atom s => some s
  | _ => none

end Sx

def hx (b : Bytes) : String := "x" ++ Bytes.toHex b

end Driver
