/-
S-expressions of the line protocol (driver only; not part of any theorem).
-/
import Macaroon.Basic.Bytes

namespace Driver
open Macaroon

inductive Sx
  | atom (s : String)
  | list (xs : List Sx)
  deriving Inhabited, Repr

namespace Sx

/-- split a line into tokens: parentheses and maximal runs of other non-space characters -/
def tokenize (s : String) : List String :=
  let step := fun (st : List String × List Char) (c : Char) =>
    let (acc, cur) := st
    let flush := if cur.isEmpty then acc else String.ofList cur.reverse :: acc
    if c == '(' then ("(" :: flush, [])
    else if c == ')' then (")" :: flush, [])
    else if c == ' ' || c == '\t' then (flush, [])
    else (acc, c :: cur)
  let (acc, cur) := s.toList.foldl step ([], [])
  (if cur.isEmpty then acc else String.ofList cur.reverse :: acc).reverse

/-- parse with an explicit stack of open lists (innermost first, elements reversed) -/
def parseToks : List String → List (List Sx) → Option Sx
  | [], [[x]] => some x
  | [], _ => none
  | "(" :: rest, stack => parseToks rest ([] :: stack)
  | ")" :: rest, top :: next :: stack => parseToks rest ((Sx.list top.reverse :: next) :: stack)
  | ")" :: _, _ => none
  | t :: rest, top :: stack => parseToks rest ((Sx.atom t :: top) :: stack)
  | _ :: _, [] => none

def parse (s : String) : Option Sx := parseToks (tokenize s) [[]]

def nat? : Sx → Option Nat
  | atom s => s.toNat?
  | _ => none

def int? : Sx → Option Int
  | atom s => s.toInt?
  | _ => none

/-- `x<hex>` byte strings -/
def bytes? : Sx → Option Bytes
  | atom s =>
    match s.toList with
    | 'x' :: rest => Bytes.ofHexChars rest
    | _ => none
  | _ => none

def sym? : Sx → Option String
  | atom s => some s
  | _ => none

end Sx

def hx (b : Bytes) : String := "x" ++ Bytes.toHex b

end Driver
