/-
Driver operations of the JSON half of C11.
  (json.rt (C…))        -> ok (C'…) | err:unregistered | err:tooLong
  (json.names)          -> the type-name table the model assumes: `0:Organization,2:Volumes,…`
  (json.typeof x<name>) -> caveatTypeFromString(name) as a decimal number (names, aliases, decimal strings, junk)
  (json.nameof <n>)     -> x<caveatTypeToString(n)>
-/
import Driver.CavIO
import Macaroon.Caveat.Json

namespace Driver
open Macaroon

def jsonErrName : JsonErr → String
  | .unregistered => "unregistered"
  | .tooLong => "tooLong"

def evalOpJson : Sx → Option String
  | .list [.atom "json.rt", .list cs] => do
    let cs ← cavs? cs
    match jsonRTs cs with
    | .ok cs' => some ("ok " ++ cavsStr cs')
    | .error e => some ("err:" ++ jsonErrName e)
  | .list [.atom "json.names"] =>
    some (",".intercalate (Json.typeNames.map fun e => s!"{e.1.toNat}:{e.2}"))
  | .list [.atom "json.typeof", n] => do
    let n ← n.bytes?
    let s ← String.fromUTF8? ⟨n.toArray⟩
    some (toString (Json.caveatTypeFromString s).toNat)
  | .list [.atom "json.nameof", n] => do
    let n ← u64? n
    some (hx (Bytes.ofString (Json.caveatTypeToString n)))
  | _ => none

end Driver
