/-
Driver operations of family `hostile` (C12): what the model answers for an untrusted input.

  (hostile.cavs x<msgpack> <tag>)                          →  <ok|err> nopanic alloc:fine
  (hostile.mac  x<msgpack> <tag>)                          →  <ok|err> nopanic alloc:fine
  (hostile.ticket x<msgpack> <tag>)                        →  <ok|err> nopanic alloc:fine   (the PLAINTEXT of a third-party
                                                               ticket; the harness seals it for the third party's key and
                                                               hands it to `macaroon.DischargeTicket`: `decodeTicket`)
  (hostile.json x<utf8> <tag>) / (hostile.hdr x<utf8> <tag>) →  ? nopanic alloc:fine      (no such layer in the model)
  (hostile.rep.cavs x<prefix> x<unit> <n> x<suffix> <tag>) →  <ok|err> nopanic alloc:fine child:ok
  (hostile.rep.mac  …)                                          on the input prefix ++ unit^n ++ suffix

  (hostile.depth x<msgpack> <tag>)                         →  depth:<nesting of the decoded tree>   (fidelity: checks the harness's scanner)

`ok|err` is computed (the decoders of `Caveat/Codec.lean` with the nesting budget `defaultFuel`).
The rest of the line is constant, and that is the point: the model's functions are total, so there
is no operation whose result could be "panic"; its decoded value is never larger than the input
(`Props/C12.lean: no_amplification`, `typed_no_amplification`), and nesting beyond the budget is
refused (`depth_bounded`, `deep_rejected`).  Any `panic:`, `balloon:` or `child:crashed` on the
implementation's side is therefore a difference in the P-observable.  The tag only names the
generator class and is ignored.
-/
import Driver.CavIO
import Macaroon.Caveat.Codec

namespace Driver
open Macaroon

def hostileTail : String := " nopanic alloc:fine"

def okErr {α} (o : Option α) : String := if o.isSome then "ok" else "err"

/-- `macaroon.DecodeCaveats(buf)` as the library behaves at the TOP level: `msgpack.Unmarshal` of a
wire `nil` into a `*CaveatSet` does not call the custom decoder, it leaves the empty set and
succeeds.  (`decodeCavs` of `Caveat/Codec.lean` refuses a `nil` tree; inside tokens, tickets and
conditionals the `nil` case is handled by the callers of `cavsOfV`.) -/
def decodeCavsTop (fuel : Nat) (bs : Bytes) : Option (List (Cav Bytes)) :=
  match Msgpack.dec fuel bs with
  | some (.nil, _) => some []
  | _ => decodeCavs fuel bs

mutual
/-- nesting of arrays and maps of a decoded tree (the driver's own copy of `Lemmas/Msgpack.lean: depth`) -/
def vDepth : Msgpack.V → Nat
  | .arr _ xs => 1 + vDepthL xs
  | .map _ kvs => 1 + vDepthL kvs
  | _ => 0
def vDepthL : Msgpack.VL → Nat
  | .nil => 0
  | .cons v vs => max (vDepth v) (vDepthL vs)
end

/-- prefix ++ unit^n ++ suffix -/
def repBytes (p u : Bytes) (n : Nat) (s : Bytes) : Bytes :=
  p ++ (List.replicate n u).flatten ++ s

/-- the harness tags inputs in which an ext header directly precedes a map header (`.extmap`): the library
reads those as maps where a map is expected (vmihailenco `DecodeMapLen`), which is outside the modelled wire
domain, so no accept/refuse verdict is given for them; likewise for map-encoded structs that name a field
twice (`.dupfield`: the library decodes the second value on top of the first) -/
def tagExtMap : Sx → Bool
  | .atom t => (t.splitOn ".extmap").length > 1 || (t.splitOn ".dupfield").length > 1
  | _ => false

def evalOpHostile : Sx → Option String
  | .list [.atom "hostile.cavs", b, tag] => do
    let b ← b.bytes?
    if tagExtMap tag then some ("?" ++ hostileTail) else
    some (okErr (decodeCavsTop defaultFuel b) ++ hostileTail)
  | .list [.atom "hostile.mac", b, tag] => do
    let b ← b.bytes?
    if tagExtMap tag then some ("?" ++ hostileTail) else
    some (okErr (decodeMac defaultFuel b) ++ hostileTail)
  | .list [.atom "hostile.ticket", b, tag] => do
    let b ← b.bytes?
    if tagExtMap tag then some ("?" ++ hostileTail) else
    some (okErr (decodeTicket defaultFuel b) ++ hostileTail)
  | .list [.atom "hostile.json", b, _] => do
    let _ ← b.bytes?
    some ("?" ++ hostileTail)
  | .list [.atom "hostile.hdr", b, _] => do
    let _ ← b.bytes?
    some ("?" ++ hostileTail)
  | .list [.atom "hostile.depth", b, _] => do
    -- cross-check of the harness's iterative scanner (which tags inputs `.over200`): the nesting of the
    -- tree `dec` returns under an ample budget
    let b ← b.bytes?
    match Msgpack.dec 100000 b with
    | some (v, _) => some s!"depth:{vDepth v}"
    | none => some "depth:undecodable"
  | .list [.atom "hostile.rep.builtin", _, _, _, _, _] =>
    -- consistent hostile constructions built by the harness itself (self-referencing discharges): the model's
    -- verification is total and never gives a discharge's own third-party caveats any discharges
    -- (`nested_3p_never_discharged`, C04), so it ends; no accept/refuse verdict is compared
    some ("?" ++ hostileTail ++ " child:ok")
  | .list [.atom "hostile.rep.cavs", p, u, n, s, _] => do
    let b := repBytes (← p.bytes?) (← u.bytes?) (← n.nat?) (← s.bytes?)
    some (okErr (decodeCavsTop defaultFuel b) ++ hostileTail ++ " child:ok")
  | .list [.atom "hostile.rep.mac", p, u, n, s, _] => do
    let b := repBytes (← p.bytes?) (← u.bytes?) (← n.nat?) (← s.bytes?)
    some (okErr (decodeMac defaultFuel b) ++ hostileTail ++ " child:ok")
  | _ => none

end Driver
