/-
Driver operations of family `hostile` (C12): what the model answers for an untrusted input.

  (hostile.cavs x<msgpack> <tag>)                          →  <ok|err> nopanic alloc:fine
  (hostile.mac  x<msgpack> <tag>)                          →  <ok|err> nopanic alloc:fine
  (hostile.json x<utf8> <tag>) / (hostile.hdr x<utf8> <tag>) →  ? nopanic alloc:fine      (no such layer in the model)
  (hostile.rep.cavs x<prefix> x<unit> <n> x<suffix> <tag>) →  <ok|err> nopanic alloc:fine child:ok
  (hostile.rep.mac  …)                                          on the input prefix ++ unit^n ++ suffix

`ok|err` is computed (the decoders of `Caveat/Codec.lean` with the nesting budget `defaultFuel`).
The rest of the line is constant, and that is the point: the model's functions are total, so there
is no operation whose result could be "panic"; its decoded value is never larger than the input
(`Props/C12.lean: no_amplification`, `typed_no_amplification`), and nesting beyond the budget is
refused (`depth_bounded`, `deep_rejected`).  Any `panic:`, `balloon:` or `child:crashed` on the
implementation's side is therefore a difference in the P-observable.  The tag only names the
generator class and is ignored.
-/
import Driver.CavIO
import Macaroon.Caveat.Codec

namespace Driver
open Macaroon

def hostileTail : String := " nopanic alloc:fine"

def okErr {α} (o : Option α) : String := if o.isSome then "ok" else "err"

/-- `macaroon.DecodeCaveats(buf)` as the library behaves at the TOP level: `msgpack.Unmarshal` of a
wire `nil` into a `*CaveatSet` does not call the custom decoder, it leaves the empty set and
succeeds.  (`decodeCavs` of `Caveat/Codec.lean` refuses a `nil` tree; inside tokens, tickets and
conditionals the `nil` case is handled by the callers of `cavsOfV`.) -/
def decodeCavsTop (fuel : Nat) (bs : Bytes) : Option (List (Cav Bytes)) :=
  match Msgpack.dec fuel bs with
  | some (.nil, _) => some []
  | _ => decodeCavs fuel bs

/-- prefix ++ unit^n ++ suffix -/
def repBytes (p u : Bytes) (n : Nat) (s : Bytes) : Bytes :=
  p ++ (List.replicate n u).flatten ++ s

def evalOpHostile : Sx → Option String
  | .list [.atom "hostile.cavs", b, _] => do
    let b ← b.bytes?
    some (okErr (decodeCavsTop defaultFuel b) ++ hostileTail)
  | .list [.atom "hostile.mac", b, _] => do
    let b ← b.bytes?
    some (okErr (decodeMac defaultFuel b) ++ hostileTail)
  | .list [.atom "hostile.json", b, _] => do
    let _ ← b.bytes?
    some ("?" ++ hostileTail)
  | .list [.atom "hostile.hdr", b, _] => do
    let _ ← b.bytes?
    some ("?" ++ hostileTail)
  | .list [.atom "hostile.rep.cavs", p, u, n, s, _] => do
    let b := repBytes (← p.bytes?) (← u.bytes?) (← n.nat?) (← s.bytes?)
    some (okErr (decodeCavsTop defaultFuel b) ++ hostileTail ++ " child:ok")
  | .list [.atom "hostile.rep.mac", p, u, n, s, _] => do
    let b := repBytes (← p.bytes?) (← u.bytes?) (← n.nat?) (← s.bytes?)
    some (okErr (decodeMac defaultFuel b) ++ hostileTail ++ " child:ok")
  | _ => none

end Driver
