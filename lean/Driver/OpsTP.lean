/-
Driver support for the discharge-service model (C16).  The driver is a stateless line evaluator,
so an op carries a whole history:

  (tp.run   ACT …)         handler-level semantics; one output token per action, then `live:…`
  (tp.sched ITEM …)        store-operation semantics; ITEM = (spawn ACT) | (step i) | (evict ROLE SECRET);
                           one token per spawned handler (`pending` if it has not returned),
                           then `|`, the store-operation log, then `live:…`

  ACT    = (init SVC TICKET MODE) | (poll SVC SECRET) | (uservisit SVC SECRET)
         | (approve SVC ROLE SECRET c…) | (abort SVC ROLE SECRET m) | (evict ROLE SECRET)
  SVC    = 0 | 1                 (the tp.TP the request is addressed to; both share the store)
  TICKET = (good n) | (bad n)    (good n is sealed under the key of service n % 2)
  MODE   = (immediate c…) | poll | user | (refuse status m) | none
  ROLE   = poll | user           (which endpoint / namespace the secret is presented to)
  SECRET = f<k>.poll | f<k>.user | x<n>     (k-th Insert's secrets, 1-based; never-issued)
-/
import Driver.Sexp
import Macaroon.TP.Server

namespace Driver.TPIO
open Macaroon.TP Driver

def natOfChars (cs : List Char) : Option Nat :=
  if cs.isEmpty then none else (String.ofList cs).toNat?

/-- `base` = first natural that no Insert of this history can draw -/
def secret? (base : Nat) : Sx → Option Secret
  | .atom s =>
    match s.toList with
    | 'x' :: rest => (natOfChars rest).map (base + ·)
    | 'f' :: rest =>
      let num := rest.takeWhile (· != '.')
      let suffix := String.ofList (rest.dropWhile (· != '.'))
      match natOfChars num with
      | some (k + 1) =>
        if suffix == ".poll" then some (2 * k + 1)
        else if suffix == ".user" then some (2 * k)
        else none
      | _ => none
    | _ => none
  | _ => none

def role? : Sx → Option Role
  | .atom "poll" => some .poll
  | .atom "user" => some .user
  | _ => none

def ticket? : Sx → Option Ticket
  | .list [.atom "good", n] => n.nat?.map .good
  | .list [.atom "bad", n] => n.nat?.map .bad
  | _ => none

def mode? : Sx → Option Mode
  | .atom "poll" => some .poll
  | .atom "user" => some .userInteractive
  | .atom "none" => some .noResponse
  | .list [.atom "refuse", st, m] => do some (.refuse (← st.nat?) (← m.nat?))
  | .list (.atom "immediate" :: cs) => do some (.immediate (← cs.mapM Sx.nat?))
  | _ => none

def action? (base : Nat) : Sx → Option Action
  | .list [.atom "init", v, t, m] => do some (.init (← v.nat?) (← ticket? t) (← mode? m))
  | .list [.atom "poll", v, s] => do some (.poll (← v.nat?) (← secret? base s))
  | .list [.atom "uservisit", v, s] => do some (.userVisit (← v.nat?) (← secret? base s))
  | .list (.atom "approve" :: v :: r :: s :: cs) => do
    some (.decide (← v.nat?) (← role? r) (← secret? base s) (.approve (← cs.mapM Sx.nat?)))
  | .list [.atom "abort", v, r, s, m] => do
    some (.decide (← v.nat?) (← role? r) (← secret? base s) (.abort (← m.nat?)))
  | .list [.atom "evict", r, s] => do some (.evict ⟨← role? r, ← secret? base s⟩)
  | _ => none

def sched? (base : Nat) : Sx → Option Sched
  | .list [.atom "spawn", a] => (action? base a).map .spawn
  | .list [.atom "step", i] => i.nat?.map .step
  | .list [.atom "evict", r, s] => do some (.evict ⟨← role? r, ← secret? base s⟩)
  | _ => none

/-- symbolic name of a secret, given how many flows were inserted -/
def secretStr (base flows : Nat) (s : Secret) : String :=
  if s < 2 * flows then
    "f" ++ toString (s / 2 + 1) ++ (if s % 2 == 0 then ".user" else ".poll")
  else if s ≥ base then "x" ++ toString (s - base)
  else "s" ++ toString s

def roleStr : Role → String
  | .poll => "poll"
  | .user => "user"

def keyStr (base flows : Nat) (k : Key) : String :=
  roleStr k.role ++ ":" ++ secretStr base flows k.secret

def natsStr (pfx : String) (xs : List Nat) : String :=
  ",".intercalate (xs.map fun x => pfx ++ toString x)

def bodyStr (base flows : Nat) : Body → String
  | .discharge d => "discharge:t" ++ toString d.ticket ++ ":" ++ natsStr "c" d.caveats
  | .pollUrl ps _ => "poll:" ++ secretStr base flows ps
  | .userUrls ps us => "user:" ++ secretStr base flows ps ++ "," ++ secretStr base flows us
  | .error 0 => "empty"                       -- `{"error": ""}` is `{}` under omitempty
  | .error m => "error:m" ++ toString m
  | .notFound => "notfound"
  | .notReady => "notready"
  | .internal => "error"
  | .none => "none"
  | .page => "page"

def outStr (base flows : Nat) : Out → String
  | .http st b app => toString st ++ ":" ++ bodyStr base flows b ++ (if app then "+app" else "")
  | .api true => "ok"
  | .api false => "err"
  | .silent => "-"

/-- live keys, by flow, poll key before user key -/
def liveStr (st : Store) : String :=
  let flows := st.heap.length
  let names := (List.range flows).flatMap fun a =>
    (if (st.addr (pollKey (2 * a + 1))).isSome then ["f" ++ toString (a + 1) ++ ".poll"] else []) ++
    (if (st.addr (userKey (2 * a))).isSome then ["f" ++ toString (a + 1) ++ ".user"] else [])
  let stray := st.keys.filter fun e => !(e.1 == pollKey (2 * e.2 + 1) || e.1 == userKey (2 * e.2))
  "live:" ++ ",".intercalate names ++ (if stray.isEmpty then "" else "!stray")

def opStr (base flows : Nat) (i : Nat) (a : Action) : OpEv → Option String
  | .inserted _ _ ps => some s!"{i}:ins:{secretStr base flows ps}"
  | .got k res => some s!"{i}:get:{keyStr base flows k}:{if res.isSome then "hit" else "miss"}"
  | .updated k _ ok => some s!"{i}:upd:{keyStr base flows k}:{if ok then "ok" else "miss"}"
  | .delLooked k found => if found then none else some s!"{i}:del:{keyStr base flows k}:miss"
  | .removed _ =>
    match a.key? with
    | some k => some s!"{i}:del:{keyStr base flows k}:ok"
    | none => some s!"{i}:del:?"

def evalOpTP : Sx → Option String
  | .list (.atom "tp.run" :: acts) => do
    let base := 2 * acts.length + 2
    let as ← acts.mapM (action? base)
    let (st, h) := exec as
    let flows := st.heap.length
    let toks := h.reverse.map fun e => outStr base flows e.2
    some (" ".intercalate (toks ++ [liveStr st]))
  | .list (.atom "tp.sched" :: items) => do
    let base := 2 * items.length + 2
    let sc ← items.mapM (sched? base)
    let (sys, tr) := Sys.run sc
    let flows := sys.store.heap.length
    let outs := sys.threads.map fun th =>
      match th.pc with
      | .done o => outStr base flows o
      | _ => "pending"
    let ops := tr.reverse.filterMap fun e =>
      match e with
      | .op i a o => opStr base flows i a o
      | .evicted k => some ("evict:" ++ keyStr base flows k)
      | _ => none
    some (" ".intercalate (outs ++ ["|"] ++ ops ++ [liveStr sys.store]))
  | _ => none

end Driver.TPIO
