/-
Driver operations of the token layer (C01, C02, C04–C08): the concrete instance of the generic
token logic on hex-encoded bytes.
-/
import Driver.CavIO
import Macaroon.Token.Concrete

namespace Driver
open Macaroon Macaroon.Concrete

def verrName : VErr → String
  | .unfinalized => "unfinalized" | .noDischarge => "noDischarge" | .unsealVK => "unsealVK"
  | .boundElsewhere => "boundElsewhere" | .attestationInNonProof => "attestationInNonProof"
  | .wrappedAttestation => "wrappedAttestation"
  | .encodeErr => "encodeErr" | .dischargeFailed => "dischargeFailed" | .invalid => "invalid"

def aerrName : AErr → String
  | .finalizedProof => "finalizedProof" | .encodeErr => "encodeErr"
  | .attestationOnNonProof => "attestationOnNonProof" | .duplicate3P => "duplicate3P"
  | .wrappedAttestation => "wrappedAttestation"

/-- `(trust (x<loc> x<ka> …) …)` -/
def trust? : Sx → Option (Bytes → List Bytes)
  | .list (.atom "trust" :: es) => do
    let tbl ← es.mapM fun
      | .list (l :: ks) => do some (← l.bytes?, ← ks.mapM Sx.bytes?)
      | _ => none
    some fun loc => ((tbl.find? fun e => e.1 == loc).map (·.2)).getD []
  | _ => none

def item? : Sx → Option (AddItem Bytes)
  | .list [.atom "c", c] => do some (.plain (← cav? c))
  | .list [.atom "new3p", l, t, rn, n] => do some (.new3p (← l.bytes?) (← t.bytes?) (← rn.bytes?) (← n.bytes?))
  | _ => none

def encStr (m : Mac Bytes) : String :=
  match (encode m).2 with
  | some b => hx b
  | none => "err-encode"

/-- one step of the proof-token state machine (C08) -/
def proofStep (key : Bytes) (m : Mac Bytes) : Sx → Option (Mac Bytes × String)
  | .list [.atom "add", c] => do
    let c ← cav? c
    let (m', e) := add m [.plain c]
    some (m', match e with | none => "add:ok" | some e => "add:" ++ aerrName e)
  | .atom "encode" =>
    let (m', b) := encode m
    some (m', "enc:" ++ (match b with | some b => hx b | none => "err"))
  | .list (.atom "addn" :: cs) => do
    -- one Add call with any number of caveats (none, several, the same one twice)
    let cs ← cs.mapM cav?
    let (m', e) := add m (cs.map .plain)
    some (m', match e with | none => "addn:ok" | some e => "addn:" ++ aerrName e)
  | .atom "string" =>
    -- String(): Encode, then the text form; the observable is the token inside the text
    let (m', b) := encode m
    some (m', "str:" ++ (match b with | some b => hx b | none => "err"))
  | .atom "encfail" =>
    -- an Encode that fails in serialisation (a caveat became unserialisable): the state change of Encode -
    -- finalise a new proof, once - has happened all the same
    some (encodeState m, "encfail:err")
  | .atom "clone" =>
    -- Clone = Encode then Decode; the observable is the clone's own encoding
    let (m', b) := encode m
    match b.bind decode with
    | some c => some (m', "clone:" ++ encStr c)
    | none => some (m', "clone:err")
  | .atom "verify" =>
    some (m, match verify key m [] (fun _ => []) with
      | .ok cs => "verify:ok" ++ cavsStr cs
      | .error e => "verify:" ++ verrName e)
  | .list [.atom "bind", p] => do
    let pm ← decode (← p.bytes?)
    let (m', e) := bindTo m pm
    some (m', match e with | none => "bind:ok" | some e => "bind:" ++ aerrName e)
  | .list [.atom "bindcopy", p] => do
    -- Bind on a decoded copy of the (encoded) proof: the proof itself is unchanged
    let pm ← decode (← p.bytes?)
    let (m', b) := encode m
    match b.bind decode with
    | some c => some (m', match (bindTo c pm).2 with | none => "bind:ok" | some e => "bind:" ++ aerrName e)
    | none => some (m', "bind:err")
  | .atom "cloneadd" =>
    -- adding to a decoded copy must be refused once the proof is finalised
    let (m', b) := encode m
    match b.bind decode with
    | some c => some (m', match (add c [.plain (.action 1)]).2 with | none => "cloneadd:ok" | some e => "cloneadd:" ++ aerrName e)
    | none => some (m', "cloneadd:err")
  | _ => none

def evalOpToken : Sx → Option String
  | .list [.atom "verify", k, t, .list ds, tr] => do
    let k ← k.bytes?
    let t ← t.bytes?
    let ds ← ds.mapM Sx.bytes?
    let tr ← trust? tr
    match decode t with
    | none => some "err:decode"
    | some m =>
      match verifyBytes k m ds tr with
      | .ok cs => some ("ok " ++ cavsStr cs)
      | .error e => some ("err:" ++ verrName e)
  | .list [.atom "const", .atom s] => some s
  | .list [.atom "attest", k, t, .list ds, tr] => do
    -- what typed lookup (GetCaveats[T] for the attestation types, DangerousUserID) finds in the result
    let k ← k.bytes?
    let t ← t.bytes?
    let ds ← ds.mapM Sx.bytes?
    let tr ← trust? tr
    match decode t with
    | none => some "err:decode"
    | some m =>
      match verifyBytes k m ds tr with
      | .ok cs => some ("ok " ++ cavsStr (getCaveats Cav.isAttestation cs))
      | .error e => some ("err:" ++ verrName e)
  | .list [.atom "clear", k, t, .list ds, tr, .list as] => do
    -- verify, then clear the requests against the returned caveats
    let k ← k.bytes?
    let t ← t.bytes?
    let ds ← ds.mapM Sx.bytes?
    let tr ← trust? tr
    let as ← as.mapM access?
    match decode t with
    | none => some "err:decode"
    | some m =>
      match verifyBytes k m ds tr with
      | .ok cs => some (if (validate cs as).isEmpty then "permit" else "deny")
      | .error _ => some "reject"
  | .list [.atom "tok.new", k, kid, loc, rnd] => do
    some (encStr (mint (← k.bytes?) (← kid.bytes?) (← loc.bytes?) (← rnd.bytes?) false))
  | .list [.atom "tok.add", t, .list items] => do
    let t ← t.bytes?
    let items ← items.mapM item?
    match decode t with
    | none => some "err:decode"
    | some m =>
      let (m', e) := add m items
      some ((match e with | none => "ok " | some e => "err:" ++ aerrName e ++ " ") ++ encStr m')
  | .list [.atom "tok.ticket", ka, .list cs, rn, n] => do
    let cs ← cavs? cs
    some (hx (Crypto.sealTicket (← ka.bytes?) (← n.bytes?) (← rn.bytes?) cs))
  | .list [.atom "tok.discharge", ka, loc, ticket, rnd, .atom p] => do
    match dischargeTicket (← ka.bytes?) (← loc.bytes?) (← ticket.bytes?) (← rnd.bytes?) (p == "1") with
    | .error .cannotOpen => some "err:cannotOpen"
    | .error .badPlaintext => some "err:badPlaintext"
    | .ok (cs, dm) => some ("ok " ++ cavsStr cs ++ " " ++ encStr dm)
  | .list [.atom "tok.bind", d, p] => do
    match decode (← d.bytes?), decode (← p.bytes?) with
    | some dm, some pm =>
      let (m', e) := bindTo dm pm
      some ((match e with | none => "ok " | some e => "err:" ++ aerrName e ++ " ") ++ encStr m')
    | _, _ => some "err:decode"
  | .list [.atom "proof.run", ka, loc, ticket, rnd, key, .list ops] => do
    match dischargeTicket (← ka.bytes?) (← loc.bytes?) (← ticket.bytes?) (← rnd.bytes?) true with
    | .error _ => some "err:ticket"
    | .ok (_, dm) =>
      let key ← key.bytes?
      let (_, outs) ← ops.foldlM (fun (st : Mac Bytes × List String) op => do
        let (m', o) ← proofStep key st.1 op
        some (m', st.2 ++ [o])) (dm, [])
      some (" ".intercalate outs)
  | _ => none

end Driver
