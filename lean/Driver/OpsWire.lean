/-
Driver operations of the wire layer (C11, C05, C12).
-/
import Driver.CavIO
import Macaroon.Caveat.Codec

namespace Driver
open Macaroon

def nonceStr (n : Nonce) : String :=
  s!"(nonce {hx n.kid} {hx n.rnd} {n.version} {if n.proof then 1 else 0})"

def macStr (m : WireMac) : String :=
  s!"(mac {nonceStr m.nonce} {hx m.loc} {cavsStr m.cavs} {hx m.tail})"

def evalOpWire : Sx → Option String
  | .list [.atom "enc.cav", c] => do
    let c ← cav? c
    -- (an unregistered caveat that lost its body, at any depth, cannot be written: `MarshalMsgpack` fails)
    some (if encodable c then hx (encCav c) else "err-encode")
  | .list [.atom "enc.cavs", .list cs] => do
    let cs ← cavs? cs
    some (if cs.all encodable then hx (encCavSet cs) else "err-encode")
  | .list [.atom "dec.cavs", b] => do
    let b ← b.bytes?
    match decodeCavsTopLevel defaultFuel b with
    | none => some "err"
    | some cs => some ("ok " ++ cavsStr cs)
  | .list [.atom "reenc.cavs", b] => do
    let b ← b.bytes?
    match decodeCavsTopLevel defaultFuel b with
    | none => some "err"
    | some cs => if cs.all encodable then some ("ok " ++ hx (encCavSet cs)) else some "err-encode"
  | .list [.atom "dec.mac", b] => do
    let b ← b.bytes?
    match decodeMac defaultFuel b with
    | none => some "err"
    | some m => some ("ok " ++ macStr m)
  | .list [.atom "reenc.mac", b] => do
    let b ← b.bytes?
    match decodeMac defaultFuel b with
    | none => some "err"
    | some m => if m.cavs.all encodable then some ("ok " ++ hx (encMac m)) else some "err-encode"
  | _ => none

end Driver
